"""C05 - the reconstruction is the true (non-negative) least-squares optimum.

The matrix A = F+H is concrete (small SPD matrices / matrices of small real inversions), the right-hand side
(data vector D, or the image data it is built from) is a vector of solver variables in a box.  The real
active-set solver `fnnls_cholesky` (with its rank-one Cholesky updates) is executed on the proxies; every one of its
real-valued comparisons forks the path under the decision-margin policy (DESIGN 2.2), LAPACK calls act on concrete
matrices or are lifted linearly.  On every path the returned vector is checked against the KKT certificate."""
import os
import time as _time
from fractions import Fraction

import numpy as np
import z3

from symx import hx, values as V

PROPERTY = "C05"
FUNCTIONS = [
    "autoarray.util.fnnls.fnnls_cholesky",
    "autoarray.util.fnnls.fix_constraint_cholesky",
    "autoarray.util.cholesky_funcs.cholinsertlast",
    "autoarray.util.cholesky_funcs.choldeleteindexes",
    "autoarray.util.cholesky_funcs._cholupdate",
    "autoarray.inversion.inversion.inversion_util.reconstruction_positive_only_from",
    "autoarray.inversion.inversion.inversion_util.reconstruction_positive_negative_from",
    "autoarray.inversion.inversion.inversion_util.mapped_reconstructed_data_via_mapping_matrix_from",
    "autoarray.inversion.inversion.inversion_util.mapped_reconstructed_data_via_image_to_pix_unique_from",
    "autoarray.inversion.inversion.abstract.AbstractInversion.reconstruction",
    "autoarray.inversion.inversion.abstract.AbstractInversion.curvature_reg_matrix",
    "autoarray.inversion.inversion.abstract.AbstractInversion.reconstruction_dict",
    "autoarray.inversion.inversion.abstract.AbstractInversion.mapped_reconstructed_data",
    "autoarray.inversion.inversion.imaging.mapping.InversionImagingMapping.curvature_matrix",
    "autoarray.inversion.inversion.imaging.mapping.InversionImagingMapping.mapped_reconstructed_data_dict",
    "autoarray.inversion.inversion.imaging.w_tilde.InversionImagingWTilde.mapped_reconstructed_data_dict",
]

DELTA = Fraction(1, 2 ** 30)        # decision margin (about 9.3e-10), dyadic so that path conditions stay small
TAU = Fraction(1, 10 ** 7)          # KKT tolerance of the obligations ("to numerical precision" for |b| <= 10)
TAU_REPLAY = Fraction(1, 2 * 10 ** 7)   # a counterexample must violate KKT by more than this on the float64 run
BOX = 10

# ---------------------------------------------------------------------------------------------------------------
# engine additions local to this harness (see "engine limitations" in the notes): linear lifting of LAPACK calls,
# forking comparisons for the solver's work arrays, decision margin.

_STATE = {"margin": False, "const_cache": {}}
MAX_UNDECIDED = 3         # feasibility 'unknown' this often on one path: the path is abandoned and reported (exit 3)
CASE_BUDGET_S = {"quick": 240, "thorough": 1500}


class Undecided(Exception):
    pass


def _case_budget():
    return CASE_BUDGET_S.get(os.environ.get("VERIF_TIER", "quick"), 240)


def _rat(x):
    """LAPACK result entry as an exact rational: the float itself (dyadic), or - when the float is within 1e-15
    relative of a rational with a denominator <= 10^4 (inverses of small integer matrices) - that rational.
    Keeps the coefficients of the path conditions short; the change is far below the decision margin."""
    f = Fraction(float(x))
    r = f.limit_denominator(10 ** 4)
    if r != 0 and abs(r - f) <= abs(f) * Fraction(1, 10 ** 15):
        return r
    return f


def _lift(X, b):
    """X (concrete matrix) times b (vector that may hold proxies) as simplified z3 terms"""
    X = np.asarray(X, dtype=float)
    b = np.asarray(b, dtype=object).reshape(-1)
    out = np.empty(X.shape[0], dtype=object)
    bt = [V.to_real_term(e) for e in b]
    for i in range(X.shape[0]):
        terms = [V.rval(_rat(X[i, j])) * bt[j] for j in range(X.shape[1]) if X[i, j] != 0.0]
        t = z3.simplify(z3.Sum(terms)) if terms else z3.RealVal(0)
        if z3.is_rational_value(t):
            out[i] = np.float64(float(Fraction(t.numerator_as_long(), t.denominator_as_long())))
        else:
            out[i] = V.SymReal(t)
    return out


def _install():
    import scipy.linalg as real_slg
    from symx import shim
    from symx.explore import Explorer
    import autoarray.util.fnnls as fnnls_mod
    import autoarray.util.cholesky_funcs as chol_mod

    class FArr(np.ndarray):
        """work array of the solver: an ordering comparison yields a real boolean (index) array by forking"""
        __array_priority__ = 30

        def _cmp(self, o, name):
            r = getattr(np.ndarray, name)(self.view(np.ndarray), o)
            if isinstance(r, np.ndarray) and r.dtype == object:
                return V.ctx().concrete_bools(r)
            return r

        def __le__(self, o): return self._cmp(o, "__le__")
        def __lt__(self, o): return self._cmp(o, "__lt__")
        def __ge__(self, o): return self._cmp(o, "__ge__")
        def __gt__(self, o): return self._cmp(o, "__gt__")

    def farr(a):
        return np.asarray(a, dtype=object).view(FArr)

    class SolverNP(shim.NPFacade):
        """`np` of autoarray.util.fnnls: float allocations are FArr; max/min reduce through the element
        comparisons (each one forks under the margin policy) instead of building ite terms"""

        def zeros(self, shape, dtype=None, **kw):
            r = shim.NPFacade.zeros(self, shape, dtype=dtype, **kw)
            return r.view(FArr) if r.dtype == object else r

        def max(self, x, axis=None, **kw):
            return np.max(x, axis=axis, **kw)

        def min(self, x, axis=None, **kw):
            return np.min(x, axis=axis, **kw)

    class LinalgFacade:
        """np.linalg with `solve` lifted linearly for a concrete matrix and a symbolic right-hand side"""

        def __getattr__(self, name):
            return getattr(np.linalg, name)

        def solve(self, a, b, **kw):
            if shim.has_sym(b):
                a = np.asarray(shim.normalise(a), dtype=float)
                X = np.linalg.solve(a, np.eye(a.shape[0]))
                return farr(_lift(X, b))
            return np.linalg.solve(shim.normalise(a), shim.normalise(b), **kw)

    class SlgFacade:
        """scipy.linalg of autoarray.util.fnnls: concrete factorisations natively, solves lifted linearly"""

        def __getattr__(self, name):
            return getattr(real_slg, name)

        def solve(self, a, b, **kw):
            if shim.has_sym(b):
                a = np.asarray(shim.normalise(a), dtype=float)
                kw2 = {k: v for k, v in kw.items() if k in ("assume_a", "lower")}
                X = real_slg.solve(a.copy(), np.eye(a.shape[0]), **kw2)
                return _lift(X, b)
            return real_slg.solve(shim.normalise(a), shim.normalise(b), **kw)

        def cho_solve(self, c_and_lower, b, **kw):
            c, lower = c_and_lower
            if shim.has_sym(b):
                c = np.asarray(shim.normalise(c), dtype=float)
                X = real_slg.cho_solve((c, lower), np.eye(c.shape[0]))
                return _lift(X, b)
            return real_slg.cho_solve((shim.normalise(c), lower), shim.normalise(b), **kw)

        def cholesky(self, a, **kw):
            return real_slg.cholesky(shim.normalise(a), **kw)

    orig_isclose = shim.NPFacade.isclose

    def isclose_fork(self, a, b, rtol=1e-05, atol=1e-08, **kw):
        """np.isclose on proxies is used as a boolean index array (`x[np.isclose(x, 0)] = 0`): concretise by forking"""
        r = orig_isclose(self, a, b, rtol=rtol, atol=atol, **kw)
        if isinstance(r, np.ndarray) and r.dtype == object:
            return V.ctx().concrete_bools(r)
        return r

    def allclose_merged(self, a, b, rtol=1e-05, atol=1e-08, **kw):
        if shim.has_sym(a) or shim.has_sym(b):
            r = orig_isclose(self, a, b, rtol=rtol, atol=atol)
            acc = True
            for e in np.asarray(r, dtype=object).reshape(-1):
                acc = _and(acc, e)
            return acc
        return np.allclose(shim.normalise(a), shim.normalise(b), rtol=rtol, atol=atol, **kw)

    shim.NPFacade.isclose = isclose_fork
    shim.NPFacade.allclose = allclose_merged
    fnnls_mod.np = SolverNP(np)
    fnnls_mod.slg = SlgFacade()
    shim.NPFacade.linalg = LinalgFacade()

    class CholLinalgFacade:
        """scipy.linalg of autoarray.util.cholesky_funcs: only ever sees concrete matrices (all-concrete object arrays
        are normalised to float64 at this library boundary)"""

        def __getattr__(self, name):
            return getattr(real_slg, name)

        def solve_triangular(self, a, b, **kw):
            return real_slg.solve_triangular(shim.normalise(a), shim.normalise(b), **kw)

    chol_mod.linalg = CholLinalgFacade()

    # ---- decision margin ------------------------------------------------------------------------------------
    orig_decide = Explorer.decide
    CMP = (z3.Z3_OP_LE, z3.Z3_OP_GE, z3.Z3_OP_LT, z3.Z3_OP_GT)

    def atoms(c, acc):
        k = c.decl().kind()
        if k in (z3.Z3_OP_AND, z3.Z3_OP_OR, z3.Z3_OP_NOT):
            for ch in c.children():
                atoms(ch, acc)
        elif k in CMP and z3.is_real(c.arg(0)):
            acc.append(c)
        return acc

    def frac(v):
        return Fraction(v.numerator_as_long(), v.denominator_as_long())

    def constant_in_band(self, t, width):
        """is `t` one and the same constant k with |k| < width on the whole current path (exact cancellation such as
        d + alpha (s - d) = 0)?  Such a decision is exact in real arithmetic and gets no margin.  Model filter first
        (a model value outside the band shows that the band is satisfiable), then one validity query."""
        m = self._ensure_model()
        if m is None:
            return False
        try:
            v = m.eval(t, model_completion=True)
        except z3.Z3Exception:
            return False
        if not z3.is_rational_value(v):
            return False
        k = frac(v)
        if abs(k) >= width:
            return False
        key = (tuple(e[0] for e in self.stack[:self.pos]), t.sexpr())
        hit = _STATE["const_cache"].get(key)
        if hit is None:
            r, m2 = self._check(t != V.rval(k))
            hit = (r == "unsat")
            if r == "sat":
                self.model = m2
            elif r != "unsat":
                self.stats.errors.append("margin: constancy query unknown for %s" % t.sexpr()[:200])
            if len(_STATE["const_cache"]) < 200000:
                _STATE["const_cache"][key] = hit
        return hit

    def decide(self, c, payload_fn=None):
        if isinstance(c, bool) or not _STATE["margin"]:
            return orig_decide(self, c, payload_fn)
        c = z3.simplify(c)
        if z3.is_true(c) or z3.is_false(c):
            return orig_decide(self, c, payload_fn)
        for a in atoms(c, []):
            lhs, rhs = a.arg(0), a.arg(1)
            if z3.is_rational_value(lhs) and not z3.is_rational_value(rhs):
                lhs, rhs = rhs, lhs             # the band is symmetric
            delta = DELTA * _STATE.get("margin_scale", 1)     # margin in the units of the data (small-unit cases)
            if z3.is_rational_value(rhs) and abs(frac(rhs)) <= delta:
                # comparison against the solver's tolerance (~1e-16): robust iff |lhs| >= 2*delta
                t, width = lhs, 2 * delta
            else:
                t, width = z3.simplify(lhs - rhs), delta
            if constant_in_band(self, t, width):
                continue
            w = V.rval(width)
            self._add(z3.Or(t >= w, t <= -w))
        r = orig_decide(self, c, payload_fn)
        if _time.time() - getattr(self, "_t0", _time.time()) > _case_budget() + 60:
            raise Undecided("case budget exhausted in the middle of a path")
        if self.stats.feas_unknown - _STATE.get("fu0", 0) >= MAX_UNDECIDED:
            raise Undecided("the solver could not decide the feasibility of %d branches on one path" % MAX_UNDECIDED)
        return r

    Explorer.decide = decide


def POST_INSTALL():
    _install()


# ---------------------------------------------------------------------------------------------------------------
# reference: KKT certificate of   min 1/2 s^T A s - b^T s   s.t.  s >= 0

def _or(a, b):
    if isinstance(a, (bool, np.bool_)):
        return True if a else b
    if isinstance(b, (bool, np.bool_)):
        return True if b else a
    return a | b


def _and(a, b):
    if isinstance(a, (bool, np.bool_)):
        return b if a else False
    if isinstance(b, (bool, np.bool_)):
        return a if b else False
    return a & b


def _abs_le(x, t):
    x = _simp(x)
    return _and(x <= t, x >= -t)


def _simp(x):
    """normal form (sum of monomials) of a symbolic term: a residual such as A (A^-1 b) - b collapses to a linear form
    with rounding-size coefficients"""
    if isinstance(x, V.SymReal):
        return V.SymReal(z3.simplify(x.t, som=True))
    return x


def kkt(A, b, s, tau, prefix, Aout, Eout):
    """three certificates; A: concrete matrix (nested list / array), b, s: vectors (proxies or floats)"""
    n = len(b)
    g = []
    for i in range(n):
        acc = -b[i]
        for j in range(n):
            if A[i][j] != 0:
                acc = acc + float(A[i][j]) * s[j]
        g.append(_simp(acc))
    nonneg, stat, dual = True, True, True
    for i in range(n):
        nonneg = _and(nonneg, s[i] >= 0)
        stat = _and(stat, _or(s[i] <= tau, _abs_le(g[i], tau)))
        dual = _and(dual, _or(s[i] > tau, g[i] >= -tau))
    Aout[prefix + "nonnegative"] = nonneg
    Eout[prefix + "nonnegative"] = True
    Aout[prefix + "gradient_vanishes_on_positive_entries"] = stat
    Eout[prefix + "gradient_vanishes_on_positive_entries"] = True
    Aout[prefix + "gradient_nonnegative_on_zero_entries"] = dual
    Eout[prefix + "gradient_nonnegative_on_zero_entries"] = True


def _tau():
    return TAU_REPLAY if _STATE.get("replay") else TAU


def _vec(x):
    x = hx.unwrap(x)
    return list(np.asarray(x, dtype=object).reshape(-1))


# ---------------------------------------------------------------------------------------------------------------
# level 1: the solver routine and its caller on concrete SPD matrices, symbolic right-hand side

def body_solver(inp, A, mode):
    from autoarray.util import fnnls
    from autoarray.inversion.inversion import inversion_util
    from autoarray.inversion.inversion.settings import SettingsInversion
    Am = np.array(A, dtype=float)
    n = Am.shape[0]
    b = np.asarray(inp["b"]).reshape(n)
    Aout, Eout = {}, {}
    if mode == "direct":
        r = hx.attempt(fnnls.fnnls_cholesky, Am.copy(), b.copy())
    else:
        if mode.endswith("_pos"):
            # the documented positional form SettingsInversion(use_w_tilde, use_positive_only_solver, positive_only_uses_p_initial)
            settings = SettingsInversion(True, True, mode.startswith("warm"))
        else:
            settings = SettingsInversion(use_positive_only_solver=True, positive_only_uses_p_initial=(mode == "warm"))
        r = hx.attempt(inversion_util.reconstruction_positive_only_from, data_vector=b.copy(),
                       curvature_reg_matrix=Am.copy(), settings=settings)
    if isinstance(r, hx.Raised):
        Aout["returns_a_solution"] = "raised %s %s" % (r.name, r.msg)
        Eout["returns_a_solution"] = "ok"
        return Aout, Eout
    s = _vec(r)
    Aout["solution"] = np.array(s, dtype=object)          # not an obligation: cross-validated against the native run
    if len(s) != n:
        Aout["returns_a_solution"] = "length %d" % len(s)
        Eout["returns_a_solution"] = "ok"
        return Aout, Eout
    kkt(A, list(b), s, _tau(), "", Aout, Eout)
    return Aout, Eout


def _box(ctx, arr):
    ctx.box_terms = []
    for e in np.asarray(arr, dtype=object).reshape(-1):
        c = z3.And(e.t >= -BOX, e.t <= BOX)
        ctx.box_terms.append(c)
        ctx.assume(c)


def _check_box_first(ctx, key, actual, expected):
    """an obligation that does not depend on the path (residual of the unconstrained solve): first decided under the
    box constraints alone (dropping path constraints only weakens the hypotheses - sound for 'holds'); anything
    else than unsat falls back to the ordinary check under the full path condition"""
    terms = hx.eq_terms(actual, expected)
    zs = [t for t in terms if not isinstance(t, (bool, np.bool_))]
    if any(isinstance(t, (bool, np.bool_)) and not t for t in terms) or not zs:
        return ctx.check(key, terms)
    slv = z3.SolverFor("QF_LRA")
    slv.set("timeout", 10000)
    slv.add(*ctx.box_terms)
    slv.add(z3.Not(z3.And(*zs)))
    ctx.stats.queries += 1
    try:
        r = str(slv.check())
    except z3.Z3Exception:
        r = "unknown"
    if r == "unsat":
        return ctx.check(key, True)
    return ctx.check(key, terms)


def _known(key_regions):
    ids = [k for k in os.environ.get("VERIF_KNOWN", "").split(",") if k]
    out = {}
    for key, regs in key_regions.items():
        r = {fid: t for fid, t in regs.items() if fid in ids}
        if r:
            out[key] = r
    return out or None


KKT_KEYS = ("nonnegative", "gradient_vanishes_on_positive_entries", "gradient_nonnegative_on_zero_entries")


def _warm_region(A, b):
    """region of the recorded warm-start defect (known_findings.d/C05.json): with P = sign pattern of the unconstrained
    solution x = A^-1 b, P is not the full set and either (a) the least-squares solution restricted to P has a
    non-positive entry (the solver clips it instead of repairing the set) or (b) b is non-positive on the complement of
    P while the gradient b - A d of the warm-started d is positive there (stale w)."""
    import itertools
    Am = np.array(A, dtype=float)
    n = Am.shape[0]
    x = [V.to_real_term(e) for e in _lift(np.linalg.solve(Am, np.eye(n)), b)]
    bt = [V.to_real_term(e) for e in b]
    alts = []
    for pat in itertools.product((False, True), repeat=n):
        S = [i for i in range(n) if pat[i]]
        C = [i for i in range(n) if not pat[i]]
        if not S or not C:
            continue
        here = z3.And(*[(x[i] > 0) if pat[i] else (x[i] <= 0) for i in range(n)])
        sS = [V.to_real_term(e) for e in _lift(np.linalg.solve(Am[np.ix_(S, S)], np.eye(len(S))), [b[i] for i in S])]
        cond_a = z3.Or(*[t <= 0 for t in sS])
        w = [bt[j] - z3.Sum([V.rval(Am[j, i]) * sS[k] for k, i in enumerate(S)]) for j in C]
        cond_b = z3.And(z3.And(*[bt[j] <= 0 for j in C]), z3.Or(*[t > 0 for t in w]))
        alts.append(z3.And(here, z3.Or(cond_a, cond_b)))
    return z3.Or(*alts) if alts else z3.BoolVal(False)


def _guarded(ctx, fn):
    """run one path under the margin policy.  A path that needs more than the decision bound (the solver keeps
    iterating) is an unwinding-assertion failure: a model of its path condition becomes a counterexample candidate
    that the replay judges on the real code.  Infeasible paths under the margin policy are reported, never silent."""
    from symx.explore import BoundExceeded, PathAbort, Candidate
    import time
    if sum(1 for c in ctx.stats.candidates if c.known is None) >= ctx.max_candidates:
        raise PathAbort()           # enough counterexamples for this case: stop exploring
    if getattr(ctx, "_t0", None) is None:
        ctx._t0 = time.time()
    if time.time() - ctx._t0 > _case_budget():
        if not getattr(ctx, "_budget_reported", False):
            ctx._budget_reported = True
            ctx.stats.errors.append("case budget exhausted after %d paths: exploration incomplete" % ctx.stats.paths)
        raise PathAbort()
    _STATE["margin"] = True
    _STATE["fu0"] = ctx.stats.feas_unknown
    _STATE["tw0"] = (ctx.stats.twins, ctx.stats.twins_sat)
    try:
        fn()
    except Undecided as e:
        _STATE["margin"] = False
        ctx.stats.errors.append("path abandoned: %s" % e)
        raise PathAbort()
    except BoundExceeded as e:
        _STATE["margin"] = False
        r, m = ctx._check()
        if r == "sat":
            ctx.stats.sat += 1
            ctx.stats.candidates.append(Candidate("terminates_within_decision_bound", ctx.case_from_model(m), None, str(e)))
        else:
            ctx.stats.errors.append("decision bound exceeded on a path whose condition is %s" % r)
        raise PathAbort()
    except PathAbort:
        # an abort after a feasibility 'unknown' on this path only resolves that unknown (the branch was assumed feasible
        # and is now proved infeasible); without one, the margin bands themselves emptied the path: report it
        if ctx.pos > 0 and ctx.stats.feas_unknown == _STATE.get("fu0", 0):
            ctx.stats.errors.append("path became infeasible under the margin policy after %d decisions" % ctx.pos)
        elif ctx.pos > 0:
            # the reachability twin of this path came back unsat: it only resolved the earlier feasibility 'unknown'
            # (the path is infeasible and is not counted); do not leave it in the vacuity statistics
            t0, s0 = _STATE.get("tw0", (ctx.stats.twins, ctx.stats.twins_sat))
            ctx.stats.twins = t0 + (ctx.stats.twins_sat - s0)
        raise
    finally:
        _STATE["margin"] = False


def case_solver(ctx, A, mode):
    n = len(A)
    b = V.real_array("b", (n,))
    _box(ctx, b)
    ctx.set_case(A=A, mode=mode)
    known = None
    if mode == "warm":
        reg = _warm_region(A, b)
        known = _known({k: {"warm-start-not-optimal": reg} for k in KKT_KEYS + ("returns_a_solution",)})
    _guarded(ctx, lambda: hx.run_body(ctx, body_solver, {"b": b}, {"A": A, "mode": mode}, validate_every=1, known=known))


# ---------------------------------------------------------------------------------------------------------------
# level 1b: strongly correlated systems (n = 5, columns nearly collinear: G^T G + 1e-3 I of rank-2/3 G plus 10% noise,
# entries rounded to 1/64, condition numbers 1.5e3 - 1.5e4).  Their decision tree over the full box is beyond nlsat
# (already n = 4 with condition number 25 left regions undecided), so the right-hand side runs over a low-dimensional
# affine family  b = b0 + sum_k t_k e_{i_k}  through a noise-like b0, t_k symbolic in [-SPAN, SPAN].  On these systems
# the active-set iterations exchange indices (one enters, another leaves) several times in a row.
SPAN = 4
# coordinate planes (matrix index, (i, j)) left out of the thorough tier: cold-start exploration hit decision regions
# thinner than the margin (aborted paths) or undecided by nlsat and needed 300-1800 s; the other 25 planes are decided
HARD_PLANES = {(0, (0, 4)), (1, (1, 4)), (1, (3, 4)), (2, (1, 3)), (2, (2, 3))}
CORR5 = [
    {"A": [[2.078125, -0.71875, 1.546875, -2.828125, 1.1875], [-0.71875, 0.703125, -0.640625, 1.53125, 0.796875], [1.546875, -0.640625, 1.1875, -2.25, 0.609375], [-2.828125, 1.53125, -2.25, 4.578125, -0.15625], [1.1875, 0.796875, 0.609375, -0.15625, 4.28125]],
     "b0": [-0.5625, 1.125, -0.5, 1.8125, 1.5]},      # condition number 1513
    {"A": [[1.796875, 2.703125, 3.109375, -2.109375, 6.390625], [2.703125, 12.8125, 5.265625, -0.96875, 11.0], [3.109375, 5.265625, 5.578125, -3.578125, 11.59375], [-2.109375, -0.96875, -3.578125, 3.09375, -7.421875], [6.390625, 11.0, 11.59375, -7.421875, 24.671875]],
     "b0": [0.9375, 2.4375, 1.6875, -0.8125, 3.375]},      # condition number 4498
    {"A": [[4.4375, 9.28125, 4.234375, 2.140625, -1.640625], [9.28125, 57.546875, 28.796875, -23.625, -13.171875], [4.234375, 28.796875, 14.484375, -12.65625, -6.65625], [2.140625, -23.625, -12.65625, 22.0625, 6.390625], [-1.640625, -13.171875, -6.65625, 6.390625, 3.125]],
     "b0": [3.6875, 6.9375, 3.25, 1.8125, -0.9375]},      # condition number 7164
]

# deeper thorough tier: one more n = 5 system and three n = 6 systems of the same construction (segments only for n = 6)
CORR_DEEP = [
    {"A": [[7.171875, -13.046875, 9.40625, -2.96875, 8.0], [-13.046875, 23.90625, -16.40625, 5.453125, -12.984375], [9.40625, -16.40625, 16.15625, -3.546875, 18.78125], [-2.96875, 5.453125, -3.546875, 1.28125, -2.59375], [8.0, -12.984375, 18.78125, -2.59375, 27.296875]],
     "b0": [-1.5, 3.0625, -0.8125, 0.875, 0.625]},      # n = 5, condition number 14473
    {"A": [[8.546875, -1.328125, 9.328125, -11.390625, 2.78125, -4.828125], [-1.328125, 10.546875, 8.8125, 3.890625, 2.609375, 1.0625], [9.328125, 8.8125, 21.21875, -12.0, 4.984375, -4.859375], [-11.390625, 3.890625, -12.0, 20.8125, 0.4375, 5.984375], [2.78125, 2.609375, 4.984375, 0.4375, 4.40625, -1.84375], [-4.828125, 1.0625, -4.859375, 5.984375, -1.84375, 2.859375]],
     "b0": [-2.1875, 1.8125, -0.6875, 2.4375, -1.0625, 1.875]},      # n = 6, condition number 1158
    {"A": [[22.25, 9.359375, -7.25, -10.328125, 10.265625, -10.03125], [9.359375, 7.703125, -5.453125, 0.921875, 14.890625, -1.5625], [-7.25, -5.453125, 19.375, 19.359375, -7.984375, -14.40625], [-10.328125, 0.921875, 19.359375, 37.3125, 13.6875, -11.65625], [10.265625, 14.890625, -7.984375, 13.6875, 35.96875, 0.703125], [-10.03125, -1.5625, -14.40625, -11.65625, 0.703125, 23.171875]],
     "b0": [6.75, 7.125, -7.1875, 0.0, 14.375, 2.375]},      # n = 6, condition number 2154
    {"A": [[10.515625, 5.140625, -11.0, 10.234375, -2.96875, -1.453125], [5.140625, 38.484375, -1.140625, -3.875, 5.0625, 9.1875], [-11.0, -1.140625, 12.28125, -12.234375, 4.046875, 2.359375], [10.234375, -3.875, -12.234375, 13.15625, -4.84375, -3.1875], [-2.96875, 5.0625, 4.046875, -4.84375, 2.1875, 1.953125], [-1.453125, 9.1875, 2.359375, -3.1875, 1.953125, 3.421875]],
     "b0": [-0.4375, 3.3125, 0.875, -1.5625, 1.1875, 0.875]},      # n = 6, condition number 2747
]

MATS3_DEEP = [
    [[5.0, 2.0, -1.0], [2.0, 4.0, 1.5], [-1.0, 1.5, 3.0]],                 # mixed signs, moderate correlation
    [[2.0, 1.5, 1.0], [1.5, 2.0, 1.5], [1.0, 1.5, 2.0]],                   # Toeplitz, correlation 0.75 (condition number 23)
    [[4096.0, -1024.0, 0.0], [-1024.0, 4096.0, -1024.0], [0.0, -1024.0, 4096.0]],   # huge magnitude (2^10 x tridiagonal)
    [[0.00390625, 0.001953125, 0.0], [0.001953125, 0.0078125, -0.001953125], [0.0, -0.001953125, 0.00390625]],   # tiny magnitude (2^-8)
    [[1.0, 0.0, 0.0], [0.0, 1.0, 0.0], [0.0, 0.0, 1.0]],                   # identity (coincident decision boundaries)
    [[3.0, -1.0, -1.0], [-1.0, 3.0, -1.0], [-1.0, -1.0, 3.0]],             # fully symmetric (ties between all components)
]
MATS4_DEEP = [
    [[4.0, -1.0, -1.0, 0.0], [-1.0, 4.0, 0.0, -1.0], [-1.0, 0.0, 4.0, -1.0], [0.0, -1.0, -1.0, 4.0]],   # 2x2 mesh: curvature + constant regularisation
    [[2.0, 0.5, 0.0, 0.0], [0.5, 3.0, 1.0, 0.0], [0.0, 1.0, 4.0, -1.5], [0.0, 0.0, -1.5, 5.0]],         # banded, mixed signs
]

def body_family(inp, A, b0, dirs, mode):
    t = list(np.asarray(inp["t"], dtype=object).reshape(-1))
    b = [np.float64(v) for v in b0]
    for tk, i in zip(t, dirs):
        b[i] = b[i] + tk
    sym = any(V.is_sym(e) for e in b)
    return body_solver({"b": np.array(b, dtype=object if sym else float)}, A, mode)


def case_family(ctx, A, b0, dirs, mode):
    t = V.real_array("t", (len(dirs),))
    ctx.box_terms = []
    for e in t:
        c = z3.And(e.t >= -SPAN, e.t <= SPAN)
        ctx.box_terms.append(c)
        ctx.assume(c)
    ctx.set_case(A=A, b0=b0, dirs=dirs, mode=mode)
    _guarded(ctx, lambda: hx.run_body(ctx, body_family, {"t": t}, {"A": A, "b0": b0, "dirs": dirs, "mode": mode},
                                      validate_every=1))


# ---------------------------------------------------------------------------------------------------------------
# level 2: unconstrained solver

def body_unconstrained(inp, A, ranges, force):
    from autoarray.inversion.inversion import inversion_util
    Am = np.array(A, dtype=float)
    n = Am.shape[0]
    b = np.asarray(inp["b"]).reshape(n)
    Aout, Eout = {}, {}
    r = hx.attempt(inversion_util.reconstruction_positive_negative_from, data_vector=b.copy(),
                   curvature_reg_matrix=Am.copy(), mapper_param_range_list=[list(x) for x in ranges],
                   force_check_reconstruction=force)
    if isinstance(r, hx.Raised):
        Aout["solves_or_raises_InversionException"] = r.name
        Eout["solves_or_raises_InversionException"] = "InversionException"
        # the exception is the documented degenerate-solution check: some mapper range of the exact solution is flat
        x = _vec(_solve_ref(Am, b))
        flat = False
        for lo, hi in ranges:
            f = True
            for i in range(lo, hi):
                f = _and(f, _abs_le(x[i] - x[lo], 1e-7 + 1e-4 * abs(x[lo])))
            flat = _or(flat, f)
        Aout["exception_only_for_flat_solutions"] = flat
        Eout["exception_only_for_flat_solutions"] = True
        return Aout, Eout
    s = _vec(r)
    Aout["solution"] = np.array(s, dtype=object)
    res = True
    for i in range(n):
        acc = -b[i]
        for j in range(n):
            acc = acc + float(Am[i, j]) * s[j]
        res = _and(res, _abs_le(acc, _tau()))
    Aout["solves_or_raises_InversionException"] = res
    Eout["solves_or_raises_InversionException"] = True
    return Aout, Eout


def _solve_ref(Am, b):
    """reference solution by Cramer / exact elimination on the concrete matrix (independent of numpy.linalg.solve)"""
    n = Am.shape[0]
    M = [[Fraction(float(Am[i, j])) for j in range(n)] for i in range(n)]
    I = [[Fraction(int(i == j)) for j in range(n)] for i in range(n)]
    for c in range(n):
        p = next(r for r in range(c, n) if M[r][c] != 0)
        M[c], M[p] = M[p], M[c]
        I[c], I[p] = I[p], I[c]
        pv = M[c][c]
        M[c] = [v / pv for v in M[c]]
        I[c] = [v / pv for v in I[c]]
        for r in range(n):
            if r != c and M[r][c] != 0:
                f = M[r][c]
                M[r] = [a - f * bb for a, bb in zip(M[r], M[c])]
                I[r] = [a - f * bb for a, bb in zip(I[r], I[c])]
    out = []
    for i in range(n):
        acc = 0.0
        for j in range(n):
            if I[i][j] != 0:
                acc = acc + float(I[i][j]) * b[j]
        out.append(acc)
    return out


def case_unconstrained(ctx, A, ranges, force):
    n = len(A)
    b = V.real_array("b", (n,))
    _box(ctx, b)
    ctx.set_case(A=A, ranges=ranges)
    _guarded(ctx, lambda: hx.run_body(ctx, body_unconstrained, {"b": b}, {"A": A, "ranges": ranges, "force": force},
                                      validate_every=1))


# ---------------------------------------------------------------------------------------------------------------
# level 3: aa.Inversion on a small real imaging dataset: concrete mask / PSF / noise-map / linear objects, so F+H is
# concrete; image values (hence the data vector D) are solver variables.

PSF = [[0.0, 1.0, 0.0], [1.0, 4.0, 1.5], [0.0, 0.5, 0.0]]          # sums to 8: the normalised kernel is dyadic
NOISE_CYCLE = [1.0, 2.0, 1.0, 0.5, 1.0, 2.0, 1.0, 1.0, 4.0]        # per unmasked pixel (repeated), dyadic
DATA_BASE = [0.5, -1.0, 2.0, -0.25, 1.0, 0.5, -2.0, 0.75, -0.5, 1.5, -0.75, 0.25, -1.5, 1.0, -0.5, 2.0, 0.5, -1.0, 0.25, -2.0]
FUNC_M1 = [[1, 0], [1, 1], [0, 1], [2, 0], [1, 1], [0, 2], [1, 0], [0, 0], [0, 1]]      # two correlated profiles
FUNC_M2 = [[1], [0], [1], [0], [3], [0], [1], [0], [1]]
FUNC_OVERRIDE = [[0.5], [0.25], [1.0], [0.0], [2.0], [0.125], [0.75], [0.0], [1.5]]   # operated_mapping_matrix_override (dyadic)
DIAG_ADD = 2.0 ** -10
SMALL_UNIT = 24           # small-unit cases: image = 2^-24 (6e-8) times an O(1) image.  Not smaller: the solver's own absolute
#                           tolerance 2.2e-16 n leaves relative gradients up to A_ii * tol / scale (1.4e-7 at 2^-26, 5e-7 at 2^-30)
SUB_SIZE = 2             # over-sampling of the mapper: fractional mapping-matrix entries / data weights


def _full_data(inp, region, sym, scale_exp=0):
    """image values on the unmasked region: concrete base pattern (signed, noise-like) with the entries listed in
    `sym` replaced by the (symbolic) inputs"""
    n = region[0] * region[1]
    vals = list(np.asarray(inp["data"], dtype=object).reshape(-1))
    data = [np.float64(DATA_BASE[k % len(DATA_BASE)]) for k in range(n)]
    for v, k in zip(vals, sym):
        data[k] = v
    if scale_exp:
        c = 2.0 ** -scale_exp          # image in small units (exact power of two): everything downstream must scale with it
        data = [x * c for x in data]
    return data


def _dataset_pieces(data, region):
    import autoarray as aa
    R, C = region
    Hh, Ww = R + 4, C + 4
    mask_arr = np.ones((Hh, Ww), dtype=bool)
    mask_arr[2:2 + R, 2:2 + C] = False
    mask = aa.Mask2D(mask=mask_arr, pixel_scales=(1.0, 1.0))
    sym = any(V.is_sym(e) for e in data)
    data2d = np.zeros((Hh, Ww), dtype=object if sym else float)
    if sym:
        data2d.fill(np.float64(0.0))
    noise2d = np.ones((Hh, Ww))
    k = 0
    for y in range(2, 2 + R):
        for x in range(2, 2 + C):
            data2d[y, x] = data[k]
            noise2d[y, x] = NOISE_CYCLE[k % len(NOISE_CYCLE)]
            k += 1
    dataset = aa.Imaging(
        data=aa.Array2D.no_mask(values=data2d, pixel_scales=1.0),
        noise_map=aa.Array2D.no_mask(values=noise2d, pixel_scales=1.0),
        psf=aa.Kernel2D.no_mask(values=np.array(PSF), pixel_scales=1.0),
        over_sampling=aa.OverSamplingDataset(uniform=aa.OverSamplingUniform(sub_size=1)),
    ).apply_mask(mask=mask)
    return aa, mask, mask_arr, noise2d, dataset


def _linear_objs(aa, mask, dataset, objs, mesh):
    """objs: 'funcs' (two function lists), 'rect' (one rectangular mapper) or a '+'-joined order such as 'func+rect',
    'func+rect+func2' (mapper preceded / surrounded by function lists, so its parameters start at an offset)"""
    class Lin(aa.AbstractLinearObjFuncList):
        def __init__(self, grid, M, override=None):
            super().__init__(grid=grid, regularization=None)
            self._M = np.array(M, dtype=float)
            self._override = None if override is None else np.array(override, dtype=float)

        @property
        def operated_mapping_matrix_override(self):
            return self._override

        @property
        def params(self):
            return self._M.shape[1]

        @property
        def mapping_matrix(self):
            return self._M

    def mapper():
        shape = tuple(mesh)
        os_ = aa.OverSamplerUniform(mask=mask, sub_size=SUB_SIZE)
        grid = os_.over_sampled_grid
        mesh_grid = aa.Mesh2DRectangular.overlay_grid(grid=grid, shape_native=shape)
        mg = aa.MapperGrids(mask=mask, source_plane_data_grid=grid, source_plane_mesh_grid=mesh_grid,
                            image_plane_mesh_grid=None, adapt_data=None)
        return aa.MapperRectangular(mapper_grids=mg, over_sampler=os_, border_relocator=None,
                                    regularization=aa.reg.Constant(coefficient=1.0)), shape

    grid = dataset.grids.uniform
    if objs == "funcs":
        return [Lin(grid, FUNC_M1), Lin(grid, FUNC_M2)], [None, None]
    out, shapes = [], []
    for name in objs.split("+"):
        if name == "rect":
            m, shp = mapper()
            out.append(m)
            shapes.append(shp)
        elif name == "func":
            out.append(Lin(grid, FUNC_M2))
            shapes.append(None)
        elif name == "funcov":
            # function list that supplies its own operated (blurred) mapping matrix, different from the PSF-convolved one
            out.append(Lin(grid, FUNC_M2, override=FUNC_OVERRIDE))
            shapes.append(None)
        elif name == "func2":
            out.append(Lin(grid, [[r[1]] for r in FUNC_M1]))
            shapes.append(None)
        else:
            raise ValueError(name)
    return out, shapes


def _reference_system(mask_arr, noise2d, lin_objs, data):
    """F, H, D and the blurred mapping matrices from their definitions (numpy/scipy, a few lines)"""
    from scipy.signal import convolve2d
    un = ~mask_arr
    psf = np.array(PSF) / np.sum(PSF)
    sig = noise2d[un]
    Bs, Hs, noreg = [], [], []
    for obj in lin_objs:
        M = np.array(hx.unwrap(obj.mapping_matrix), dtype=float)
        B = np.zeros_like(M)
        ov = getattr(obj, "operated_mapping_matrix_override", None)
        if ov is not None:
            B = np.array(hx.unwrap(ov), dtype=float)      # the object's own blurred mapping matrix replaces the convolution
        else:
            for j in range(M.shape[1]):
                frame = np.zeros(mask_arr.shape)
                frame[un] = M[:, j]
                B[:, j] = convolve2d(frame, psf, mode="same")[un]
        Bs.append(B)
        if obj.regularization is None:
            Hs.append(np.zeros((M.shape[1], M.shape[1])))
            noreg.append(True)
        else:
            Hs.append(np.array(obj.regularization.regularization_matrix_from(linear_obj=obj), dtype=float))
            noreg.append(False)
    B = np.hstack(Bs)
    n = B.shape[1]
    Fref = (B / sig[:, None]).T @ (B / sig[:, None])
    Href = np.zeros((n, n))
    off = 0
    for Bk, Hk, nr in zip(Bs, Hs, noreg):
        p = Bk.shape[1]
        Href[off:off + p, off:off + p] += Hk
        if nr:
            Fref[off:off + p, off:off + p] += DIAG_ADD * np.eye(p)
        off += p
    Dref = []
    for i in range(n):
        acc = 0.0
        for k in range(B.shape[0]):
            if B[k, i] != 0.0:
                acc = acc + float(B[k, i] / sig[k] ** 2) * data[k]
        Dref.append(acc)
    return Bs, Fref, Href, Dref


def _edge_ids(shape):
    rows, cols = shape
    return [r * cols + c for r in range(rows) for c in range(cols) if r in (0, rows - 1) or c in (0, cols - 1)]


def _forced_ids(shapes, edge, zero_pixels, lin_objs):
    """parameters the settings force to zero, in GLOBAL parameter indices (offset of each mapper = number of parameters
    of the linear objects before it): mesh pixels on the outer ring of every rectangular mesh and (if image pixels are
    listed) every mesh pixel one of those image pixels maps to"""
    if not edge:
        return []
    forced, off = set(), 0
    for obj, shp in zip(lin_objs, shapes):
        M = np.array(hx.unwrap(obj.mapping_matrix), dtype=float)
        if shp is not None:
            forced.update(off + j for j in _edge_ids(shp))
            if zero_pixels:
                for j in range(M.shape[1]):
                    if any(M[k, j] != 0.0 for k in zero_pixels):
                        forced.add(off + j)
        off += M.shape[1]
    return sorted(forced)


def _setup_inversion(inp, region, sym, objs, mesh, scale_exp=0):
    data = _full_data(inp, region, sym, scale_exp)
    aa, mask, mask_arr, noise2d, dataset = _dataset_pieces(data, region)
    lin_objs, shapes = _linear_objs(aa, mask, dataset, objs, mesh)
    Bs, Fref, Href, Dref = _reference_system(mask_arr, noise2d, lin_objs, data)
    return aa, dataset, lin_objs, shapes, Bs, Fref, Href, Dref


def _unscale(x, c):
    """value(s) in units of the image scale c (exact: c is a power of two)"""
    if isinstance(x, hx.Raised) or x is None or isinstance(x, str):
        return x
    if isinstance(x, (list, tuple)):
        return [_unscale(e, c) for e in x]
    return x / c


def body_inversion(inp, region, sym, objs, mesh, w_tilde, positive, warm, edge, history, zero_pixels=None, scale_exp=0,
                   positional=False):
    aa, dataset, lin_objs, shapes, Bs, Fref, Href, Dref = _setup_inversion(inp, region, sym, objs, mesh, scale_exp)
    c = 2.0 ** -scale_exp
    if scale_exp:
        # the image is c times an O(1) image, the noise map is unchanged: D, s and the model data are c times their O(1)
        # counterparts.  All outputs are compared in units of c (so tolerances are relative to the scale of the data).
        Dref = _unscale(Dref, c)
    Aref = Fref + Href
    n = Aref.shape[0]
    if positional:
        # first three settings passed positionally (use_w_tilde, use_positive_only_solver, positive_only_uses_p_initial)
        settings = aa.SettingsInversion(w_tilde, positive, warm, force_edge_pixels_to_zeros=edge,
                                        no_regularization_add_to_curvature_diag_value=DIAG_ADD,
                                        force_edge_image_pixels_to_zeros=bool(zero_pixels),
                                        image_pixels_source_zero=list(zero_pixels) if zero_pixels else None)
    else:
      settings = aa.SettingsInversion(use_w_tilde=w_tilde, use_positive_only_solver=positive,
                                    positive_only_uses_p_initial=warm, force_edge_pixels_to_zeros=edge,
                                    no_regularization_add_to_curvature_diag_value=DIAG_ADD,
                                    force_edge_image_pixels_to_zeros=bool(zero_pixels),
                                    image_pixels_source_zero=list(zero_pixels) if zero_pixels else None)
    Aout, Eout = {}, {}
    preloads = None
    if history:
        # the dataset's curvature matrix preloaded once and re-used by successive inversions (the purpose of Preloads);
        # on proxies the array has to be able to take the object-dtype regularization matrix in the repo's `F += H`
        from symx import shim
        symbolic = any(V.is_sym(e) for e in np.asarray(inp["data"], dtype=object).reshape(-1))
        preloads = aa.Preloads(curvature_matrix=shim.as_obj(Fref.copy()) if symbolic else Fref.copy())
    forced = _forced_ids(shapes, edge and positive, zero_pixels, lin_objs)
    free = [i for i in range(n) if i not in forced]
    tau = _tau()
    for run in range(max(1, history)):
        tag = "" if not history else "inversion%d_" % (run + 1)
        kw = {"preloads": preloads} if preloads is not None else {}
        inv = aa.Inversion(dataset=dataset, linear_obj_list=lin_objs, settings=settings, **kw)
        r = hx.attempt(lambda: inv.reconstruction)
        if isinstance(r, hx.Raised):
            if positive:
                Aout[tag + "returns_a_solution"] = "raised %s %s" % (r.name, r.msg)
                Eout[tag + "returns_a_solution"] = "ok"
            else:
                Aout[tag + "solves_or_raises_InversionException"] = r.name
                Eout[tag + "solves_or_raises_InversionException"] = "InversionException"
            continue
        s = _vec(r)
        if scale_exp:
            s = _unscale(s, c)
        Aout[tag + "solution"] = np.array(s, dtype=object)
        if len(s) != n:
            Aout[tag + "returns_a_solution"] = "length %d" % len(s)
            Eout[tag + "returns_a_solution"] = "ok"
            continue
        if positive:
            Aout[tag + "forced_parameters_are_zero"] = [s[i] for i in forced]
            Eout[tag + "forced_parameters_are_zero"] = [0.0 for i in forced]
            kkt([[Aref[i, j] for j in free] for i in free], [Dref[i] for i in free], [s[i] for i in free], tau,
                tag, Aout, Eout)
        else:
            res = True
            for i in range(n):
                acc = -Dref[i]
                for j in range(n):
                    if Aref[i, j] != 0.0:
                        acc = acc + float(Aref[i, j]) * s[j]
                res = _and(res, _abs_le(acc, tau))
            Aout[tag + "solves_or_raises_InversionException"] = res
            Eout[tag + "solves_or_raises_InversionException"] = True
        # per-object views
        rd = hx.attempt(lambda: _unscale([_vec(v) for v in inv.reconstruction_dict.values()], c))
        off, exp_rd = 0, []
        for Bk in Bs:
            exp_rd.append(s[off:off + Bk.shape[1]])
            off += Bk.shape[1]
        Aout[tag + "reconstruction_dict"] = rd
        Eout[tag + "reconstruction_dict"] = exp_rd
        md = hx.attempt(lambda: _unscale([_vec(v) for v in inv.mapped_reconstructed_data_dict.values()], c))
        tot = hx.attempt(lambda: _unscale(_vec(inv.mapped_reconstructed_data), c))
        exp_md = []
        for Bk, sk in zip(Bs, exp_rd):
            col = []
            for i in range(Bk.shape[0]):
                acc = 0.0
                for j in range(Bk.shape[1]):
                    if Bk[i, j] != 0.0:
                        acc = acc + float(Bk[i, j]) * sk[j]
                col.append(acc)
            exp_md.append(col)
        Aout[tag + "mapped_data_per_object"] = md
        Eout[tag + "mapped_data_per_object"] = exp_md
        if not isinstance(md, hx.Raised) and not isinstance(tot, hx.Raised):
            ssum = []
            for i in range(len(tot)):
                acc = 0.0
                for part in md:
                    acc = acc + part[i]
                ssum.append(acc)
            Aout[tag + "mapped_data_sum_to_total"] = tot
            Eout[tag + "mapped_data_sum_to_total"] = ssum
        else:
            Aout[tag + "mapped_data_sum_to_total"] = tot
            Eout[tag + "mapped_data_sum_to_total"] = "a vector"
    return Aout, Eout


class _AllBut:
    """`only` filter for hx.check_all: every key except those with the given marker"""

    def __init__(self, marker):
        self.marker = marker

    def __bool__(self):
        return True

    def __contains__(self, k):
        ms = self.marker if isinstance(self.marker, tuple) else (self.marker,)
        return not any(m in k for m in ms)


def _check_linear_in_solution(ctx, key, actual, expected, sol, tol=1e-9):
    """obligation `actual == expected` (relative tolerance) where both sides are linear forms in the entries of the
    returned reconstruction `sol`.  First decided with the solution entries abstracted to fresh variables sigma_j
    (a generalisation: linear real arithmetic, no path condition needed; tolerance relative to 1 + sum |sigma_j|);
    if that does not come back unsat the concrete obligation is decided under the path condition as usual."""
    sa, fa = hx._flat(actual)
    se, fe = hx._flat(expected)
    if isinstance(actual, hx.Raised) or isinstance(expected, (hx.Raised, str)) or sa != se:
        return ctx.check(key, hx.eq_terms(actual, expected, tol))
    pairs, sig, aux, side = [], [], [], []
    for j, e in enumerate(sol):
        if V.is_sym(e):
            v, a = z3.Real("sigma_%d" % j), z3.Real("abs_sigma_%d" % j)
            pairs.append((V.to_real_term(e), v))
            sig.append(v)
            aux.append(a)
            side += [a >= v, a >= -v]       # a_j >= |sigma_j|: a violation with some such a is one with a = |sigma| (pure LP)
    bound = V.rval(tol) * (1 + z3.Sum(aux)) if aux else V.rval(tol)
    viol = []
    for x, y in zip(fa, fe):
        d = V.to_real_term(x) - V.to_real_term(y) if (V.is_sym(x) or V.is_sym(y)) else V.rval(float(x) - float(y))
        d = z3.simplify(z3.substitute(d, *pairs), som=True) if pairs else z3.simplify(d)
        viol.append(z3.Or(d > bound, -d > bound))
    slv = z3.SolverFor("QF_LRA")
    slv.set("timeout", 30000)
    slv.add(*side)
    slv.add(z3.Or(*viol))
    ctx.stats.queries += 1
    try:
        r = str(slv.check())
    except z3.Z3Exception:
        r = "unknown"
    if r == "unsat":
        return ctx.check(key, True)
    return ctx.check(key, hx.eq_terms(actual, expected, tol))


def case_inversion(ctx, **cfg):
    data = V.real_array("data", (len(cfg["sym"]),))
    _box(ctx, data)
    ctx.set_case(**cfg)
    known = None
    if cfg["positive"] and cfg["warm"]:
        # region of the recorded warm-start defect, expressed on the reference (reduced) system of this dataset
        with shim_native():
            aa, dataset, lin_objs, shapes, Bs, Fref, Href, Dref0 = _setup_inversion(
                {"data": [0.0] * len(cfg["sym"])}, cfg["region"], cfg["sym"], cfg["objs"], cfg["mesh"])
        n = Fref.shape[0]
        forced = _forced_ids(shapes, cfg["edge"], cfg.get("zero_pixels"), lin_objs)
        free = [i for i in range(n) if i not in forced]
        full = _full_data({"data": data}, cfg["region"], cfg["sym"])
        B = np.hstack(Bs)
        sig = np.array([NOISE_CYCLE[k % len(NOISE_CYCLE)] for k in range(B.shape[0])])
        Dref = []
        for i in free:
            acc = 0.0
            for k in range(B.shape[0]):
                if B[k, i] != 0.0:
                    acc = acc + float(B[k, i] / sig[k] ** 2) * full[k]
            Dref.append(acc)
        Aref = (Fref + Href)[np.ix_(free, free)]
        reg = _warm_region(Aref.tolist(), Dref)
        tags = [""] if not cfg["history"] else ["inversion%d_" % (r + 1) for r in range(cfg["history"])]
        known = _known({t + k: {"warm-start-not-optimal": reg} for t in tags for k in KKT_KEYS + ("returns_a_solution",)})
    def go():
        actual, expected = hx.run_body(ctx, body_inversion, {"data": data}, cfg, validate_every=1, known=known,
                                       only=_AllBut(("mapped_data", "solves_or_raises")))
        for k in expected:
            if "solves_or_raises" in k:
                _check_box_first(ctx, k, actual.get(k), expected[k])
            if "mapped_data" in k:
                tag = k[:k.index("mapped_data")]
                sol = actual.get(tag + "solution")
                _check_linear_in_solution(ctx, k, actual.get(k), expected[k], list(sol) if sol is not None else [])

    _STATE["margin_scale"] = Fraction(2) ** (-cfg.get("scale_exp", 0))
    try:
        _guarded(ctx, go)
    finally:
        _STATE["margin_scale"] = 1


def shim_native():
    from symx import shim
    return shim.native()


# ---------------------------------------------------------------------------------------------------------------
MATS2 = [
    [[2.0, 1.0], [1.0, 2.0]],            # mild positive correlation
    [[1.0, 2.0], [2.0, 5.0]],            # strongly correlated columns, unequal norms
    [[2.0, -1.0], [-1.0, 2.0]],          # anti-correlated (regularisation-like off-diagonal)
    [[4.0, 0.0], [0.0, 1.0]],            # orthogonal columns
    [[1.25, 0.75], [0.75, 2.5]],
    [[1.0, -1.5], [-1.5, 3.0]],          # strongly anti-correlated
]
MAT2_EXTREME = [[1.0, 0.9999999962747097], [0.9999999962747097, 1.0]]
MATS3 = [
    [[16.0, 14.0, 9.0], [14.0, 32.0, 19.0], [9.0, 19.0, 18.0]],      # correlated columns (Z^T Z of a small integer Z)
    [[3.0, -1.0, 0.0], [-1.0, 3.0, -1.0], [0.0, -1.0, 3.0]],         # curvature + constant regularisation of a 1x3 mesh
    [[4.0, 3.0, 2.0], [3.0, 4.0, 3.0], [2.0, 3.0, 4.0]],             # strongly correlated, Toeplitz
    [[2.0, -1.0, 1.0], [-1.0, 3.0, 0.5], [1.0, 0.5, 1.5]],           # mixed signs
]
MATS4 = [
    [[3.0, -1.0, 0.0, 0.0], [-1.0, 3.0, -1.0, 0.0], [0.0, -1.0, 3.0, -1.0], [0.0, 0.0, -1.0, 3.0]],     # 1x4 mesh
    [[4.0, 1.0, 2.0, 0.0], [1.0, 3.0, 0.0, 1.0], [2.0, 0.0, 5.0, 1.0], [0.0, 1.0, 1.0, 2.0]],          # moderately correlated, mixed sparsity
]

BODIES = {"case_family": body_family, "case_solver": body_solver, "case_unconstrained": body_unconstrained, "case_inversion": body_inversion}
EXPLORER_OPTS = {"timeout_ms": 20000, "max_paths": 20000, "max_decisions": 150, "logic": "QF_NRA", "max_candidates": 3}
BUDGET_S = {"quick": 900, "thorough": 3000}


BOUNDS = {
    "quick": "Matrix F+H concrete, right-hand side symbolic: 6 SPD matrices of n=2 and 2 of n=3 (correlated, anti-correlated, "
             "orthogonal, regularisation-like), every data vector D in the box [-10,10]^n, cold start and warm start "
             "(reconstruction_positive_only_from) plus fnnls_cholesky called directly; unconstrained solver on 3 matrices n=2 and one n=3. "
             "aa.Inversion on a real imaging dataset (3x3 unmasked pixels in a 7x7 frame, 3x3 PSF, non-uniform noise map): "
             "unconstrained solver with all 9 image values symbolic (rectangular 3x3 / 3x5 mesh with constant regularisation, both "
             "formalisms; two linear-function objects; two successive inversions sharing one Preloads.curvature_matrix); positive-only "
             "solver with 2-3 image values symbolic and the others a fixed signed pattern: two linear-function objects (n=3, cold and warm), "
             "rectangular 3x5 mesh with force_edge_pixels_to_zeros (3 free parameters; mapping+cold, w_tilde+warm, Preloads history, "
             "force_edge_image_pixels_to_zeros); mapper preceded / surrounded by function lists ([func, mapper], [func, mapper, func], 3x3 mesh) "
             "with edge forcing and with image_pixels_source_zero, both formalisms; function lists with an operated_mapping_matrix_override "
             "(dyadic, different from the convolved mapping matrix) alone, with a second list and with a mapper, both solvers; SettingsInversion constructed positionally (solver level and class level); one n=2 matrix with correlation 1-2^-28 "
             "(condition number 5e8) cold / warm / direct; small-unit data (image 2^-24 times an O(1) image with 2 symbolic values; mapper with forced edges, [func, mapper], single function list): "
             "outputs, KKT tolerances and the decision margin in units of the image scale. Strongly correlated systems: 3 SPD matrices of n=5 (nearly collinear columns, condition "
             "numbers 1.5e3-7e3, entries on a 1/64 grid) with the right-hand side restricted to affine families b = b0 + sum t_k e_i, "
             "t_k symbolic in [-4,4], through a noise-like b0: all 5 coordinate segments (cold; 3 warm) per matrix and the plane (e_0,e_3) "
             "for two matrices (the full box is beyond nlsat for such matrices). Every solver comparison forks (decision margin 2^-30).",
    "thorough": "as quick plus: solver level - 10 SPD matrices of n=3 (incl. 2^10 / 2^-8 magnitudes, identity, fully symmetric, Toeplitz 0.75) and 4 of n=4 "
                "(tridiagonal, moderately correlated, 2x2-mesh Laplacian, banded), all D in [-10,10]^n, cold and warm, fnnls direct on one n=3 and one n=4; "
                "unconstrained solver on all n=3 matrices. Strongly correlated systems (right-hand side on affine families, t in [-4,4]): 4 matrices of n=5 "
                "(condition numbers 1.5e3-1.4e4) - all coordinate segments cold+warm, 25 of 30 coordinate planes of the first three cold (HARD_PLANES excluded), "
                "4 planes each warm, 4 planes of the fourth cold; 3 matrices of n=6 (condition 1.2e3-2.7e3) - all segments cold+warm. "
                "aa.Inversion positive-only with 3 symbolic image values on 3x5 meshes over 3x3 and 3x4 pixel regions (both formalisms, cold/warm), 3x4 mesh "
                "with image_pixels_source_zero, 4x4 mesh over 4x4 pixels (4 free parameters, both formalisms); object mixes func+rect, func+rect+func2, "
                "rect+func, func2+rect, rect+funcov, rect+func+func2, funcov(+rect)(+func2) with edge / image-pixel forcing; function lists with three "
                "different symbolic pixel triples; Preloads histories of 2 and 3 inversions; image magnitudes 2^-24, 2^-20, 2^-12, 1 and 2^20. "
                "Solver timeout 60 s per query in this tier.",
}
OUTSIDE = [
    "symbolic matrices F+H (the matrix is always concrete); n > 5 free parameters; the full right-hand-side box for strongly correlated "
    "systems (n = 4 with condition number >= 25 already leaves decision regions undecided by nlsat within 20 s; 3 symbolic parameters at n = 5 "
    "do not finish in 5 minutes): those are covered on 1- and 2-parameter affine families only",
    "right-hand sides within 2^-30 (2^-29 for comparisons against the solver's 1e-16 tolerance) of a decision boundary of the "
    "active-set algorithm (decision-margin policy); float64 cancellation inside d + alpha (s - d)",
    "positive-only solver with a rectangular mapper and force_edge_pixels_to_zeros=False (>= 9 free parameters)",
    "image values outside [-10, 10]; the construction of F, H, D themselves (C04), of the mapping matrices (C06) and of the convolution (C03): "
    "the reference system is built from the repo's mapping matrices and regularization matrices with an independent convolution / normal equations",
    "image scales below 2^-24 and more than 2 free parameters at small scale: fnnls_cholesky's absolute tolerance 2.2e-16 n limits unit covariance "
    "(relative KKT residual up to A_ii*tol/scale exceeds 1e-7 from 2^-26 on; n = 3 at 2^-24 has decision regions thinner than the scaled margin)",
    "interferometer inversions, Delaunay / Voronoi meshes, adaptive regularisation",
]
STUBS = [
    "scipy.linalg.solve / cho_solve (autoarray.util.fnnls) and numpy.linalg.solve (inversion_util) with a concrete matrix and a symbolic "
    "right-hand side: the real LAPACK routine is run on the identity and the resulting concrete matrix multiplies the symbolic vector "
    "(contract: linear in the right-hand side; entries within 1e-15 of a rational with denominator <= 10^4 are replaced by that rational)",
    "scipy.linalg.cholesky / solve_triangular, cholinsertlast, choldeleteindexes, _cholupdate: real code on concrete floats (no stub)",
    "work arrays of fnnls_cholesky (np.zeros) are an ndarray subclass whose ordering comparisons return real boolean arrays by forking; "
    "np.max / np.min / argmax / clip reduce through the element comparisons (each forks under the margin policy)",
    "Explorer.decide wrapped: every real-valued comparison atom t ~ c adds the path assumption |t - c| >= 2^-30 (|t| >= 2^-29 when |c| <= 2^-30), "
    "unless t is one and the same constant on the whole path (checked by a validity query)",
    "mapped-data obligations: decided first with the reconstruction entries abstracted to fresh variables (linear real arithmetic, "
    "tolerance 1e-9 (1 + sum |s_j|)); residual obligations of the unconstrained solver first under the box constraints alone; "
    "both fall back to the full path condition when not unsat",
    "Preloads.curvature_matrix is handed over as an object-dtype copy in symbolic runs (the repo's in-place F += H needs it), float64 in replay",
]
ASSUMPTIONS = [
    "exact real arithmetic with LAPACK results taken as exact rationals of their float64 values; KKT tolerance 1e-7 in the obligations, "
    "5e-8 in the float64 replay",
    "every decision of the active-set solver is delta-robust (delta = 2^-30): inputs closer to a decision boundary are outside the claim",
    "aborted (infeasible) paths under the margin policy and paths deeper than 150 decisions are reported as errors / counterexample "
    "candidates, never dropped silently",
]


def _inv(region, sym, objs, mesh, w_tilde, positive, warm, edge, history=0, zero_pixels=None, scale_exp=0):
    return {"region": list(region), "sym": list(sym), "objs": objs, "mesh": list(mesh) if mesh else None,
            "w_tilde": w_tilde, "positive": positive, "warm": warm, "edge": edge, "history": history,
            "zero_pixels": zero_pixels, "scale_exp": scale_exp}


ALL9 = list(range(9))


def cases(tier):
    out = []
    thorough = tier != "quick"
    for M in MATS2 + MATS3 + MATS4:       # the property quantifies over symmetric positive-definite matrices only
        Mm = np.array(M)
        assert np.array_equal(Mm, Mm.T) and np.linalg.eigvalsh(Mm).min() > 1e-2, "matrix list must be SPD: %r" % (M,)
    # --- the solver routine / its caller on concrete SPD matrices
    for A in MATS2:
        for mode in ("cold", "warm"):
            out.append(("case_solver", {"A": A, "mode": mode}))
    out.append(("case_solver", {"A": MATS2[1], "mode": "direct"}))
    # settings constructed positionally (solver flags different from each other)
    out.append(("case_solver", {"A": MATS2[2], "mode": "cold_pos"}))
    out.append(("case_solver", {"A": MATS3[0], "mode": "warm_pos"}))
    # extremely correlated columns (correlation 1 - 2^-28, condition number 5e8, relative Schur complement 7.5e-9)
    for mode in ("cold", "warm", "direct"):
        out.append(("case_solver", {"A": MAT2_EXTREME, "mode": mode}))
    for A in (MATS3 if thorough else MATS3[:2]):
        for mode in ("cold", "warm"):
            out.append(("case_solver", {"A": A, "mode": mode}))
    if thorough:
        out.append(("case_solver", {"A": MATS3[0], "mode": "direct"}))
        for A in MATS4:
            for mode in ("cold", "warm"):
                out.append(("case_solver", {"A": A, "mode": mode}, {"split": 4}))
    # --- strongly correlated n = 5 systems, right-hand side in low-dimensional affine families through b0
    deep = {"max_decisions": 400, "timeout_ms": 60000 if thorough else 20000}
    for e in CORR5:
        Mm = np.array(e["A"])
        assert np.array_equal(Mm, Mm.T) and np.linalg.eigvalsh(Mm).min() > 1e-3, "CORR5 must be SPD"
        for i in range(5):
            out.append(("case_family", {"A": e["A"], "b0": e["b0"], "dirs": [i], "mode": "cold"}, deep))
        for i in ((0, 2, 4) if not thorough else range(5)):
            out.append(("case_family", {"A": e["A"], "b0": e["b0"], "dirs": [i], "mode": "warm"}, deep))
    pairs_q = [(0, [0, 3]), (1, [0, 3])]
    for k, d in pairs_q:
        out.append(("case_family", {"A": CORR5[k]["A"], "b0": CORR5[k]["b0"], "dirs": d, "mode": "cold"}, dict(deep, split=3)))
    if thorough:
        import itertools
        for k, e in enumerate(CORR5):
            for d in itertools.combinations(range(5), 2):
                if (k, list(d)) in pairs_q or (k, d) in HARD_PLANES:
                    continue
                out.append(("case_family", {"A": e["A"], "b0": e["b0"], "dirs": list(d), "mode": "cold"}, dict(deep, split=2)))
            for d in ((0, 3), (1, 4)):
                out.append(("case_family", {"A": e["A"], "b0": e["b0"], "dirs": list(d), "mode": "warm"}, dict(deep, split=2)))
    # --- unconstrained solver
    lin = {}
    for A in MATS2[:3]:
        out.append(("case_unconstrained", {"A": A, "ranges": [[0, 2]], "force": False}, lin))
    out.append(("case_unconstrained", {"A": MATS3[1], "ranges": [[0, 2], [2, 3]], "force": True}, lin))
    if thorough:
        for A in MATS3:
            out.append(("case_unconstrained", {"A": A, "ranges": [[0, 3]], "force": False}, lin))
    # --- aa.Inversion: unconstrained (all 9 image values symbolic)
    for wt in (False, True):
        out.append(("case_inversion", _inv((3, 3), ALL9, "rect", (3, 5), wt, False, False, False), lin))
    out.append(("case_inversion", _inv((3, 3), ALL9, "funcs", None, False, False, False, False), lin))
    out.append(("case_inversion", _inv((3, 3), ALL9, "rect", (3, 3), False, False, False, False, history=2), lin))
    # --- aa.Inversion: positive-only solver (2-3 symbolic image values, the rest a fixed signed pattern)
    sp = {"split": 2}
    for warm in (False, True):
        out.append(("case_inversion", _inv((3, 3), [3, 2, 4], "funcs", None, False, True, warm, False), sp))
    # rectangular 3x5 mesh over 3x3 image pixels (sub-size 2: fractional weights); 12 edge pixels forced to zero, 3 free
    out.append(("case_inversion", _inv((3, 3), [3, 4], "rect", (3, 5), False, True, False, True)))
    out.append(("case_inversion", _inv((3, 3), [3, 4], "rect", (3, 5), True, True, True, True)))
    out.append(("case_inversion", _inv((3, 3), [3, 4], "rect", (3, 5), False, True, False, True, history=2)))
    out.append(("case_inversion", _inv((3, 3), [3, 4], "rect", (3, 5), True, True, True, True, zero_pixels=[5])))
    # positional SettingsInversion at class level (positive-only without warm start; unconstrained)
    pos_cfg = _inv((3, 3), [3, 4], "rect", (3, 5), False, True, False, True)
    pos_cfg["positional"] = True
    out.append(("case_inversion", pos_cfg))
    pos_cfg2 = _inv((3, 3), [3, 4], "func+rect", (3, 3), True, True, False, True)
    pos_cfg2["positional"] = True
    out.append(("case_inversion", pos_cfg2))
    # mapper preceded / surrounded by function lists (its parameters start at an offset): both forcing mechanisms
    out.append(("case_inversion", _inv((3, 3), [3, 4], "func+rect", (3, 3), False, True, False, True)))
    out.append(("case_inversion", _inv((3, 3), [3, 4], "func+rect", (3, 3), True, True, True, True, zero_pixels=[4])))
    out.append(("case_inversion", _inv((3, 3), [3, 4, 5], "func+rect+func2", (3, 3), False, True, False, True, zero_pixels=[4])))
    out.append(("case_inversion", _inv((3, 3), [3, 4, 5], "func+rect+func2", (3, 3), True, True, True, True)))
    # small-unit data (image values 2^-24 times an O(1) image, noise map unchanged): D, s and the model data must scale
    # with the image; all outputs and the decision margin are taken in units of the image scale
    out.append(("case_inversion", _inv((3, 3), [3, 4], "rect", (3, 3), False, True, False, True, scale_exp=SMALL_UNIT)))
    out.append(("case_inversion", _inv((3, 3), [3, 4], "func+rect", (3, 3), True, True, True, True, scale_exp=SMALL_UNIT)))
    out.append(("case_inversion", _inv((3, 3), [3, 4], "func", None, False, True, False, False, scale_exp=SMALL_UNIT)))
    if thorough:
        out.append(("case_inversion", _inv((3, 3), [3, 4], "func+rect", (3, 3), False, True, False, True, scale_exp=SMALL_UNIT)))
        out.append(("case_inversion", _inv((3, 3), [3, 4], "rect", (3, 3), True, True, True, True, zero_pixels=[0], scale_exp=SMALL_UNIT)))
        out.append(("case_inversion", _inv((3, 3), [3, 4], "func", None, False, True, True, False, scale_exp=SMALL_UNIT)))
    # function list with an operated_mapping_matrix_override (alone / with a second list / with a mapper), both solvers
    out.append(("case_inversion", _inv((3, 3), ALL9, "funcov+func2", None, False, False, False, False)))
    out.append(("case_inversion", _inv((3, 3), [3, 4], "funcov+func2", None, False, True, True, False)))
    out.append(("case_inversion", _inv((3, 3), ALL9, "funcov+rect", (3, 3), False, False, False, False)))
    out.append(("case_inversion", _inv((3, 3), [3, 4], "funcov+rect", (3, 3), False, True, False, True)))
    out.append(("case_inversion", _inv((3, 3), [3, 4], "rect+funcov", (3, 3), True, True, True, True)))
    if thorough:
        out.append(("case_inversion", _inv((3, 3), ALL9, "funcov", None, False, False, False, False)))
        out.append(("case_inversion", _inv((3, 3), ALL9, "rect+funcov", (3, 5), True, False, False, False)))
        out.append(("case_inversion", _inv((3, 3), [3, 4, 5], "funcov+rect+func2", (3, 3), False, True, True, True, zero_pixels=[4])))
        for wt in (False, True):
            out.append(("case_inversion", _inv((3, 3), [3, 4, 5], "func+rect", (3, 5), wt, True, not wt, True, zero_pixels=[4]), sp))
            out.append(("case_inversion", _inv((3, 3), [3, 4, 5], "func+rect+func2", (3, 5), wt, True, wt, True, zero_pixels=[3, 4]), sp))
        for warm in (False, True):
            out.append(("case_inversion", _inv((3, 3), [3, 2, 4], "funcs", None, False, True, warm, True), sp))
            for wt in (False, True):
                out.append(("case_inversion", _inv((3, 3), [3, 4, 5], "rect", (3, 5), wt, True, warm, True), sp))
                out.append(("case_inversion", _inv((3, 4), [5, 6, 2], "rect", (3, 5), wt, True, warm, True), sp))
            out.append(("case_inversion", _inv((3, 4), [5, 6], "rect", (3, 4), True, True, warm, True)))
            out.append(("case_inversion", _inv((4, 4), [5, 6, 9, 10], "rect", (4, 4), True, True, warm, True), {"split": 4}))
        out.append(("case_inversion", _inv((3, 3), [3, 4, 5], "rect", (3, 5), False, True, True, True, history=2), sp))
        out.append(("case_inversion", _inv((3, 3), [3, 4, 5], "rect", (3, 5), False, True, False, True, zero_pixels=[4])))
        out += _deeper_cases(deep, sp)
        out = [(c[0], c[1], dict({"timeout_ms": 60000}, **(c[2] if len(c) > 2 and c[2] else {}))) for c in out]
    return out


def _deeper_cases(deep, sp):
    """second layer of the thorough tier: more of the input space under the same obligations"""
    import itertools
    out = []
    # solver level: more matrices (incl. huge / tiny magnitudes, identity, fully symmetric), n = 3 and n = 4
    for A in MATS3_DEEP:
        Mm = np.array(A)
        assert np.array_equal(Mm, Mm.T) and np.linalg.eigvalsh(Mm).min() > 1e-4
        for mode in ("cold", "warm"):
            out.append(("case_solver", {"A": A, "mode": mode}))
        out.append(("case_unconstrained", {"A": A, "ranges": [[0, 3]], "force": False}))
    for A in MATS4_DEEP:
        Mm = np.array(A)
        assert np.array_equal(Mm, Mm.T) and np.linalg.eigvalsh(Mm).min() > 1e-2
        for mode in ("cold", "warm"):
            out.append(("case_solver", {"A": A, "mode": mode}, {"split": 4}))
    out.append(("case_solver", {"A": MATS4[0], "mode": "direct"}, {"split": 4}))
    # strongly correlated systems: one more n = 5 system (segments + 4 planes), three n = 6 systems (segments)
    for k, e in enumerate(CORR_DEEP):
        Mm = np.array(e["A"])
        n = Mm.shape[0]
        assert np.array_equal(Mm, Mm.T) and np.linalg.eigvalsh(Mm).min() > 1e-3
        for i in range(n):
            for mode in ("cold", "warm"):
                out.append(("case_family", {"A": e["A"], "b0": e["b0"], "dirs": [i], "mode": mode}, deep))
    for d in DEEP_PLANES:
        out.append(("case_family", {"A": CORR_DEEP[0]["A"], "b0": CORR_DEEP[0]["b0"], "dirs": list(d), "mode": "cold"}, dict(deep, split=2)))
    for k, e in enumerate(CORR5):
        for d in ((0, 1), (2, 3)) if k != 2 else ((0, 1), (2, 4)):
            out.append(("case_family", {"A": e["A"], "b0": e["b0"], "dirs": list(d), "mode": "warm"}, dict(deep, split=2)))
    # aa.Inversion: three-step Preloads history, more object mixes / option combinations, other magnitudes
    out.append(("case_inversion", _inv((3, 3), ALL9, "rect", (3, 5), False, False, False, False, history=3)))
    out.append(("case_inversion", _inv((3, 3), [3, 4], "rect", (3, 5), False, True, True, True, history=3)))
    for wt in (False, True):
        out.append(("case_inversion", _inv((3, 3), ALL9, "rect+func+func2", (3, 3), wt, False, False, False)))
        if not wt:      # (the w-tilde / warm variant has a decision region thinner than the margin: backed out)
            out.append(("case_inversion", _inv((3, 3), [3, 4, 5], "rect+func", (3, 5), wt, True, wt, True), sp))
        out.append(("case_inversion", _inv((3, 3), [3, 4, 5], "func2+rect", (3, 5), wt, True, not wt, True, zero_pixels=[1, 4]), sp))
        out.append(("case_inversion", _inv((3, 3), [3, 4], "rect+funcov", (3, 5), wt, True, wt, True, zero_pixels=[4]), sp))
        out.append(("case_inversion", _inv((3, 4), [5, 6, 2], "rect", (3, 4), wt, True, not wt, True, zero_pixels=[5]), sp))
    out.append(("case_inversion", _inv((4, 4), [5, 6, 9, 10], "rect", (4, 4), False, True, False, True), {"split": 4}))
    out.append(("case_inversion", _inv((3, 3), [0, 4, 8], "funcs", None, False, True, False, False), sp))
    out.append(("case_inversion", _inv((3, 3), [1, 5, 7], "funcs", None, False, True, True, False), sp))
    for k in (12, 20, -20):       # image 2^-12, 2^-20 and 2^20 times an O(1) image
        out.append(("case_inversion", _inv((3, 3), [3, 4], "rect", (3, 3), k > 0, True, k < 0, True, scale_exp=k)))
        out.append(("case_inversion", _inv((3, 3), [3, 4], "func+rect", (3, 3), k < 0, True, k > 0, True, scale_exp=k)))
        out.append(("case_inversion", _inv((3, 3), [3, 4], "func", None, False, True, False, False, scale_exp=k)))
    return out


DEEP_PLANES = [(0, 1), (0, 3), (1, 2), (2, 4)]


def replay(cand):
    """float64 run of the same body on the untouched code; a counterexample must violate KKT by more than TAU_REPLAY"""
    _STATE["replay"] = True
    try:
        ok, detail = hx.replay_body(BODIES[cand["case_fn"]], cand)
        try:
            A, _ = BODIES[cand["case_fn"]](hx.to_float_struct(cand["case"]), **cand["case_kwargs"])
            sols = {k: np.asarray(v, dtype=float).round(6).tolist() for k, v in A.items() if k.endswith("solution")}
            if sols:
                detail += " | returned " + ", ".join("%s=%s" % kv for kv in sols.items())
        except Exception:  # noqa
            pass
        return ok, detail
    finally:
        _STATE["replay"] = False
