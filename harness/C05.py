"""C05 - the reconstruction is the true (non-negative) least-squares optimum.

The matrix A = F+H is concrete (small SPD matrices / matrices of small real inversions), the right-hand side
(data vector D, or the image data it is built from) is a vector of solver variables in a box.  The real
active-set solver `fnnls_cholesky` (with its rank-one Cholesky updates) is executed on the proxies; every one of its
real-valued comparisons forks the path under the decision-margin policy (DESIGN 2.2), LAPACK calls act on concrete
matrices or are lifted linearly.  On every path the returned vector is checked against the KKT certificate."""
import os
from fractions import Fraction

import numpy as np
import z3

from symx import hx, values as V

PROPERTY = "C05"
FUNCTIONS = [
    "autoarray.util.fnnls.fnnls_cholesky",
    "autoarray.util.fnnls.fix_constraint_cholesky",
    "autoarray.util.cholesky_funcs.cholinsertlast",
    "autoarray.util.cholesky_funcs.choldeleteindexes",
    "autoarray.util.cholesky_funcs._cholupdate",
    "autoarray.inversion.inversion.inversion_util.reconstruction_positive_only_from",
    "autoarray.inversion.inversion.inversion_util.reconstruction_positive_negative_from",
    "autoarray.inversion.inversion.inversion_util.mapped_reconstructed_data_via_mapping_matrix_from",
    "autoarray.inversion.inversion.inversion_util.mapped_reconstructed_data_via_image_to_pix_unique_from",
    "autoarray.inversion.inversion.abstract.AbstractInversion.reconstruction",
    "autoarray.inversion.inversion.abstract.AbstractInversion.curvature_reg_matrix",
    "autoarray.inversion.inversion.abstract.AbstractInversion.reconstruction_dict",
    "autoarray.inversion.inversion.abstract.AbstractInversion.mapped_reconstructed_data",
    "autoarray.inversion.inversion.imaging.mapping.InversionImagingMapping.curvature_matrix",
    "autoarray.inversion.inversion.imaging.mapping.InversionImagingMapping.mapped_reconstructed_data_dict",
    "autoarray.inversion.inversion.imaging.w_tilde.InversionImagingWTilde.mapped_reconstructed_data_dict",
]

DELTA = Fraction(1, 2 ** 30)        # decision margin (about 9.3e-10), dyadic so that path conditions stay small
TAU = Fraction(1, 10 ** 7)          # KKT tolerance of the obligations ("to numerical precision" for |b| <= 10)
TAU_REPLAY = Fraction(1, 2 * 10 ** 7)   # a counterexample must violate KKT by more than this on the float64 run
BOX = 10

# ---------------------------------------------------------------------------------------------------------------
# engine additions local to this harness (see "engine limitations" in the notes): linear lifting of LAPACK calls,
# forking comparisons for the solver's work arrays, decision margin.

_STATE = {"margin": False, "const_cache": {}}


def _lift(X, b):
    """X (concrete matrix) times b (vector that may hold proxies) as simplified z3 terms"""
    X = np.asarray(X, dtype=float)
    b = np.asarray(b, dtype=object).reshape(-1)
    out = np.empty(X.shape[0], dtype=object)
    bt = [V.to_real_term(e) for e in b]
    for i in range(X.shape[0]):
        terms = [V.rval(X[i, j]) * bt[j] for j in range(X.shape[1]) if X[i, j] != 0.0]
        t = z3.simplify(z3.Sum(terms)) if terms else z3.RealVal(0)
        if z3.is_rational_value(t):
            out[i] = np.float64(float(Fraction(t.numerator_as_long(), t.denominator_as_long())))
        else:
            out[i] = V.SymReal(t)
    return out


def _install():
    import scipy.linalg as real_slg
    from symx import shim
    from symx.explore import Explorer
    import autoarray.util.fnnls as fnnls_mod
    import autoarray.util.cholesky_funcs as chol_mod

    class FArr(np.ndarray):
        """work array of the solver: an ordering comparison yields a real boolean (index) array by forking"""
        __array_priority__ = 30

        def _cmp(self, o, name):
            r = getattr(np.ndarray, name)(self.view(np.ndarray), o)
            if isinstance(r, np.ndarray) and r.dtype == object:
                return V.ctx().concrete_bools(r)
            return r

        def __le__(self, o): return self._cmp(o, "__le__")
        def __lt__(self, o): return self._cmp(o, "__lt__")
        def __ge__(self, o): return self._cmp(o, "__ge__")
        def __gt__(self, o): return self._cmp(o, "__gt__")

    def farr(a):
        return np.asarray(a, dtype=object).view(FArr)

    class SolverNP(shim.NPFacade):
        """`np` of autoarray.util.fnnls: float allocations are FArr; max/min reduce through the element
        comparisons (each one forks under the margin policy) instead of building ite terms"""

        def zeros(self, shape, dtype=None, **kw):
            r = shim.NPFacade.zeros(self, shape, dtype=dtype, **kw)
            return r.view(FArr) if r.dtype == object else r

        def max(self, x, axis=None, **kw):
            return np.max(x, axis=axis, **kw)

        def min(self, x, axis=None, **kw):
            return np.min(x, axis=axis, **kw)

    class LinalgFacade:
        """np.linalg with `solve` lifted linearly for a concrete matrix and a symbolic right-hand side"""

        def __getattr__(self, name):
            return getattr(np.linalg, name)

        def solve(self, a, b, **kw):
            if shim.has_sym(b):
                a = np.asarray(shim.normalise(a), dtype=float)
                X = np.linalg.solve(a, np.eye(a.shape[0]))
                return farr(_lift(X, b))
            return np.linalg.solve(shim.normalise(a), shim.normalise(b), **kw)

    class SlgFacade:
        """scipy.linalg of autoarray.util.fnnls: concrete factorisations natively, solves lifted linearly"""

        def __getattr__(self, name):
            return getattr(real_slg, name)

        def solve(self, a, b, **kw):
            if shim.has_sym(b):
                a = np.asarray(shim.normalise(a), dtype=float)
                kw2 = {k: v for k, v in kw.items() if k in ("assume_a", "lower")}
                X = real_slg.solve(a.copy(), np.eye(a.shape[0]), **kw2)
                return _lift(X, b)
            return real_slg.solve(shim.normalise(a), shim.normalise(b), **kw)

        def cho_solve(self, c_and_lower, b, **kw):
            c, lower = c_and_lower
            if shim.has_sym(b):
                c = np.asarray(shim.normalise(c), dtype=float)
                X = real_slg.cho_solve((c, lower), np.eye(c.shape[0]))
                return _lift(X, b)
            return real_slg.cho_solve((shim.normalise(c), lower), shim.normalise(b), **kw)

        def cholesky(self, a, **kw):
            return real_slg.cholesky(shim.normalise(a), **kw)

    fnnls_mod.np = SolverNP(np)
    fnnls_mod.slg = SlgFacade()
    shim.NPFacade.linalg = LinalgFacade()

    class CholLinalgFacade:
        """scipy.linalg of autoarray.util.cholesky_funcs: only ever sees concrete matrices (all-concrete object arrays
        are normalised to float64 at this library boundary)"""

        def __getattr__(self, name):
            return getattr(real_slg, name)

        def solve_triangular(self, a, b, **kw):
            return real_slg.solve_triangular(shim.normalise(a), shim.normalise(b), **kw)

    chol_mod.linalg = CholLinalgFacade()

    # ---- decision margin ------------------------------------------------------------------------------------
    orig_decide = Explorer.decide
    CMP = (z3.Z3_OP_LE, z3.Z3_OP_GE, z3.Z3_OP_LT, z3.Z3_OP_GT)

    def atoms(c, acc):
        k = c.decl().kind()
        if k in (z3.Z3_OP_AND, z3.Z3_OP_OR, z3.Z3_OP_NOT):
            for ch in c.children():
                atoms(ch, acc)
        elif k in CMP and z3.is_real(c.arg(0)):
            acc.append(c)
        return acc

    def frac(v):
        return Fraction(v.numerator_as_long(), v.denominator_as_long())

    def constant_in_band(self, t, width):
        """is `t` one and the same constant k with |k| < width on the whole current path (exact cancellation such as
        d + alpha (s - d) = 0)?  Such a decision is exact in real arithmetic and gets no margin.  Model filter first
        (a model value outside the band shows that the band is satisfiable), then one validity query."""
        m = self._ensure_model()
        if m is None:
            return False
        try:
            v = m.eval(t, model_completion=True)
        except z3.Z3Exception:
            return False
        if not z3.is_rational_value(v):
            return False
        k = frac(v)
        if abs(k) >= width:
            return False
        key = (tuple(e[0] for e in self.stack[:self.pos]), t.sexpr())
        hit = _STATE["const_cache"].get(key)
        if hit is None:
            r, m2 = self._check(t != V.rval(k))
            hit = (r == "unsat")
            if r == "sat":
                self.model = m2
            elif r != "unsat":
                self.stats.errors.append("margin: constancy query unknown for %s" % t.sexpr()[:200])
            if len(_STATE["const_cache"]) < 200000:
                _STATE["const_cache"][key] = hit
        return hit

    def decide(self, c, payload_fn=None):
        if isinstance(c, bool) or not _STATE["margin"]:
            return orig_decide(self, c, payload_fn)
        c = z3.simplify(c)
        if z3.is_true(c) or z3.is_false(c):
            return orig_decide(self, c, payload_fn)
        for a in atoms(c, []):
            lhs, rhs = a.arg(0), a.arg(1)
            if z3.is_rational_value(lhs) and not z3.is_rational_value(rhs):
                lhs, rhs = rhs, lhs             # the band is symmetric
            if z3.is_rational_value(rhs) and abs(frac(rhs)) <= DELTA:
                # comparison against the solver's tolerance (~1e-16): robust iff |lhs| >= 2*delta
                t, width = lhs, 2 * DELTA
            else:
                t, width = z3.simplify(lhs - rhs), DELTA
            if constant_in_band(self, t, width):
                continue
            w = V.rval(width)
            self._add(z3.Or(t >= w, t <= -w))
        return orig_decide(self, c, payload_fn)

    Explorer.decide = decide


def POST_INSTALL():
    _install()


# ---------------------------------------------------------------------------------------------------------------
# reference: KKT certificate of   min 1/2 s^T A s - b^T s   s.t.  s >= 0

def _or(a, b):
    if isinstance(a, (bool, np.bool_)):
        return True if a else b
    if isinstance(b, (bool, np.bool_)):
        return True if b else a
    return a | b


def _and(a, b):
    if isinstance(a, (bool, np.bool_)):
        return b if a else False
    if isinstance(b, (bool, np.bool_)):
        return a if b else False
    return a & b


def _abs_le(x, t):
    return _and(x <= t, x >= -t)


def kkt(A, b, s, tau, prefix, Aout, Eout):
    """three certificates; A: concrete matrix (nested list / array), b, s: vectors (proxies or floats)"""
    n = len(b)
    g = []
    for i in range(n):
        acc = -b[i]
        for j in range(n):
            if A[i][j] != 0:
                acc = acc + float(A[i][j]) * s[j]
        g.append(acc)
    nonneg, stat, dual = True, True, True
    for i in range(n):
        nonneg = _and(nonneg, s[i] >= 0)
        stat = _and(stat, _or(s[i] <= tau, _abs_le(g[i], tau)))
        dual = _and(dual, _or(s[i] > tau, g[i] >= -tau))
    Aout[prefix + "nonnegative"] = nonneg
    Eout[prefix + "nonnegative"] = True
    Aout[prefix + "gradient_vanishes_on_positive_entries"] = stat
    Eout[prefix + "gradient_vanishes_on_positive_entries"] = True
    Aout[prefix + "gradient_nonnegative_on_zero_entries"] = dual
    Eout[prefix + "gradient_nonnegative_on_zero_entries"] = True


def _tau():
    return TAU_REPLAY if _STATE.get("replay") else TAU


def _vec(x):
    x = hx.unwrap(x)
    return list(np.asarray(x, dtype=object).reshape(-1))


# ---------------------------------------------------------------------------------------------------------------
# level 1: the solver routine and its caller on concrete SPD matrices, symbolic right-hand side

def body_solver(inp, A, mode):
    from autoarray.util import fnnls
    from autoarray.inversion.inversion import inversion_util
    from autoarray.inversion.inversion.settings import SettingsInversion
    Am = np.array(A, dtype=float)
    n = Am.shape[0]
    b = np.asarray(inp["b"]).reshape(n)
    Aout, Eout = {}, {}
    if mode == "direct":
        r = hx.attempt(fnnls.fnnls_cholesky, Am.copy(), b.copy())
    else:
        settings = SettingsInversion(use_positive_only_solver=True, positive_only_uses_p_initial=(mode == "warm"))
        r = hx.attempt(inversion_util.reconstruction_positive_only_from, data_vector=b.copy(),
                       curvature_reg_matrix=Am.copy(), settings=settings)
    if isinstance(r, hx.Raised):
        Aout["returns_a_solution"] = "raised %s %s" % (r.name, r.msg)
        Eout["returns_a_solution"] = "ok"
        return Aout, Eout
    s = _vec(r)
    Aout["solution"] = np.array(s, dtype=object)          # not an obligation: cross-validated against the native run
    if len(s) != n:
        Aout["returns_a_solution"] = "length %d" % len(s)
        Eout["returns_a_solution"] = "ok"
        return Aout, Eout
    kkt(A, list(b), s, _tau(), "", Aout, Eout)
    return Aout, Eout


def _box(ctx, arr):
    for e in np.asarray(arr, dtype=object).reshape(-1):
        ctx.assume(z3.And(e.t >= -BOX, e.t <= BOX))


def _known(key_regions):
    ids = [k for k in os.environ.get("VERIF_KNOWN", "").split(",") if k]
    out = {}
    for key, regs in key_regions.items():
        r = {fid: t for fid, t in regs.items() if fid in ids}
        if r:
            out[key] = r
    return out or None


KKT_KEYS = ("nonnegative", "gradient_vanishes_on_positive_entries", "gradient_nonnegative_on_zero_entries")


def _warm_region(A, b):
    """region of the recorded warm-start defect (known_findings.d/C05.json): with P = sign pattern of the unconstrained
    solution x = A^-1 b, P is not the full set and either (a) the least-squares solution restricted to P has a
    non-positive entry (the solver clips it instead of repairing the set) or (b) b is non-positive on the complement of
    P while the gradient b - A d of the warm-started d is positive there (stale w)."""
    import itertools
    Am = np.array(A, dtype=float)
    n = Am.shape[0]
    x = [V.to_real_term(e) for e in _lift(np.linalg.solve(Am, np.eye(n)), b)]
    bt = [V.to_real_term(e) for e in b]
    alts = []
    for pat in itertools.product((False, True), repeat=n):
        S = [i for i in range(n) if pat[i]]
        C = [i for i in range(n) if not pat[i]]
        if not S or not C:
            continue
        here = z3.And(*[(x[i] > 0) if pat[i] else (x[i] <= 0) for i in range(n)])
        sS = [V.to_real_term(e) for e in _lift(np.linalg.solve(Am[np.ix_(S, S)], np.eye(len(S))), [b[i] for i in S])]
        cond_a = z3.Or(*[t <= 0 for t in sS])
        w = [bt[j] - z3.Sum([V.rval(Am[j, i]) * sS[k] for k, i in enumerate(S)]) for j in C]
        cond_b = z3.And(z3.And(*[bt[j] <= 0 for j in C]), z3.Or(*[t > 0 for t in w]))
        alts.append(z3.And(here, z3.Or(cond_a, cond_b)))
    return z3.Or(*alts) if alts else z3.BoolVal(False)


def case_solver(ctx, A, mode):
    n = len(A)
    b = V.real_array("b", (n,))
    _box(ctx, b)
    ctx.set_case(A=A, mode=mode)
    known = None
    if mode == "warm":
        reg = _warm_region(A, b)
        known = _known({k: {"warm-start-not-optimal": reg} for k in KKT_KEYS + ("returns_a_solution",)})
    _STATE["margin"] = True
    try:
        hx.run_body(ctx, body_solver, {"b": b}, {"A": A, "mode": mode}, validate_every=1, known=known)
    finally:
        _STATE["margin"] = False


# ---------------------------------------------------------------------------------------------------------------
# level 2: unconstrained solver

def body_unconstrained(inp, A, ranges, force):
    from autoarray.inversion.inversion import inversion_util
    Am = np.array(A, dtype=float)
    n = Am.shape[0]
    b = np.asarray(inp["b"]).reshape(n)
    Aout, Eout = {}, {}
    r = hx.attempt(inversion_util.reconstruction_positive_negative_from, data_vector=b.copy(),
                   curvature_reg_matrix=Am.copy(), mapper_param_range_list=[list(x) for x in ranges],
                   force_check_reconstruction=force)
    if isinstance(r, hx.Raised):
        Aout["solves_or_raises_InversionException"] = r.name
        Eout["solves_or_raises_InversionException"] = "InversionException"
        # the exception is the documented degenerate-solution check: some mapper range of the exact solution is flat
        x = _vec(_solve_ref(Am, b))
        flat = False
        for lo, hi in ranges:
            f = True
            for i in range(lo, hi):
                f = _and(f, _abs_le(x[i] - x[lo], 1e-7 + 1e-4 * abs(x[lo])))
            flat = _or(flat, f)
        Aout["exception_only_for_flat_solutions"] = flat
        Eout["exception_only_for_flat_solutions"] = True
        return Aout, Eout
    s = _vec(r)
    Aout["solution"] = np.array(s, dtype=object)
    res = True
    for i in range(n):
        acc = -b[i]
        for j in range(n):
            acc = acc + float(Am[i, j]) * s[j]
        res = _and(res, _abs_le(acc, _tau()))
    Aout["solves_or_raises_InversionException"] = res
    Eout["solves_or_raises_InversionException"] = True
    return Aout, Eout


def _solve_ref(Am, b):
    """reference solution by Cramer / exact elimination on the concrete matrix (independent of numpy.linalg.solve)"""
    n = Am.shape[0]
    M = [[Fraction(float(Am[i, j])) for j in range(n)] for i in range(n)]
    I = [[Fraction(int(i == j)) for j in range(n)] for i in range(n)]
    for c in range(n):
        p = next(r for r in range(c, n) if M[r][c] != 0)
        M[c], M[p] = M[p], M[c]
        I[c], I[p] = I[p], I[c]
        pv = M[c][c]
        M[c] = [v / pv for v in M[c]]
        I[c] = [v / pv for v in I[c]]
        for r in range(n):
            if r != c and M[r][c] != 0:
                f = M[r][c]
                M[r] = [a - f * bb for a, bb in zip(M[r], M[c])]
                I[r] = [a - f * bb for a, bb in zip(I[r], I[c])]
    out = []
    for i in range(n):
        acc = 0.0
        for j in range(n):
            if I[i][j] != 0:
                acc = acc + float(I[i][j]) * b[j]
        out.append(acc)
    return out


def case_unconstrained(ctx, A, ranges, force):
    n = len(A)
    b = V.real_array("b", (n,))
    _box(ctx, b)
    ctx.set_case(A=A, ranges=ranges)
    _STATE["margin"] = True
    try:
        hx.run_body(ctx, body_unconstrained, {"b": b}, {"A": A, "ranges": ranges, "force": force}, validate_every=1)
    finally:
        _STATE["margin"] = False


# ---------------------------------------------------------------------------------------------------------------
# level 3: aa.Inversion on a small real imaging dataset: concrete mask / PSF / noise-map / linear objects, so F+H is
# concrete; the image values (hence the data vector D) are solver variables.

FRAME = 7
NOISE_3x3 = [[1.0, 2.0, 1.0], [0.5, 1.0, 2.0], [1.0, 1.0, 4.0]]
PSF = [[0.0, 0.5, 0.0], [0.5, 1.0, 0.5], [0.0, 0.25, 0.0]]
FUNC_M1 = [[1, 0], [1, 1], [0, 1], [2, 0], [1, 1], [0, 2], [1, 0], [0, 0], [0, 1]]      # two correlated profiles
FUNC_M2 = [[1], [0], [1], [0], [3], [0], [1], [0], [1]]
DIAG_ADD = 2.0 ** -10


def _dataset_pieces(data):
    import autoarray as aa
    mask_arr = np.ones((FRAME, FRAME), dtype=bool)
    mask_arr[2:5, 2:5] = False
    mask = aa.Mask2D(mask=mask_arr, pixel_scales=(1.0, 1.0))
    sym = any(V.is_sym(e) for e in data)
    data2d = np.zeros((FRAME, FRAME), dtype=object if sym else float)
    if sym:
        data2d.fill(np.float64(0.0))
    k = 0
    for y in range(2, 5):
        for x in range(2, 5):
            data2d[y, x] = data[k]
            k += 1
    noise2d = np.ones((FRAME, FRAME))
    noise2d[2:5, 2:5] = np.array(NOISE_3x3)
    dataset = aa.Imaging(
        data=aa.Array2D.no_mask(values=data2d, pixel_scales=1.0),
        noise_map=aa.Array2D.no_mask(values=noise2d, pixel_scales=1.0),
        psf=aa.Kernel2D.no_mask(values=np.array(PSF), pixel_scales=1.0),
        over_sampling=aa.OverSamplingDataset(uniform=aa.OverSamplingUniform(sub_size=1)),
    ).apply_mask(mask=mask)
    return aa, mask, mask_arr, noise2d, dataset


def _linear_objs(aa, mask, dataset, objs):
    if objs == "funcs":
        class Lin(aa.AbstractLinearObjFuncList):
            def __init__(self, grid, M):
                super().__init__(grid=grid, regularization=None)
                self._M = np.array(M, dtype=float)

            @property
            def params(self):
                return self._M.shape[1]

            @property
            def mapping_matrix(self):
                return self._M

        grid = dataset.grids.uniform
        return [Lin(grid, FUNC_M1), Lin(grid, FUNC_M2)], [None, None]
    shape = {"rect33": (3, 3), "rect35": (3, 5), "rect44": (4, 4)}[objs]
    os_ = aa.OverSamplerUniform(mask=mask, sub_size=1)
    grid = os_.over_sampled_grid
    mesh_grid = aa.Mesh2DRectangular.overlay_grid(grid=grid, shape_native=shape)
    mg = aa.MapperGrids(mask=mask, source_plane_data_grid=grid, source_plane_mesh_grid=mesh_grid,
                        image_plane_mesh_grid=None, adapt_data=None)
    mapper = aa.MapperRectangular(mapper_grids=mg, over_sampler=os_, border_relocator=None,
                                  regularization=aa.reg.Constant(coefficient=1.0))
    return [mapper], [shape]


def _reference_system(mask_arr, noise2d, lin_objs, shapes, data):
    """F, H, D and the blurred mapping matrices from their definitions (numpy/scipy, a few lines)"""
    from scipy.signal import convolve2d
    un = ~mask_arr
    psf = np.array(PSF) / np.sum(PSF)
    sig = noise2d[un]
    Bs, Hs, noreg = [], [], []
    for obj, shp in zip(lin_objs, shapes):
        M = np.array(hx.unwrap(obj.mapping_matrix), dtype=float)
        B = np.zeros_like(M)
        for j in range(M.shape[1]):
            frame = np.zeros(mask_arr.shape)
            frame[un] = M[:, j]
            B[:, j] = convolve2d(frame, psf, mode="same")[un]
        Bs.append(B)
        if obj.regularization is None:
            Hs.append(np.zeros((M.shape[1], M.shape[1])))
            noreg.append(True)
        else:
            Hs.append(np.array(obj.regularization.regularization_matrix_from(linear_obj=obj), dtype=float))
            noreg.append(False)
    B = np.hstack(Bs)
    n = B.shape[1]
    Aref = (B / sig[:, None]).T @ (B / sig[:, None])
    off = 0
    for Bk, Hk, nr in zip(Bs, Hs, noreg):
        p = Bk.shape[1]
        Aref[off:off + p, off:off + p] += Hk
        if nr:
            Aref[off:off + p, off:off + p] += DIAG_ADD * np.eye(p)
        off += p
    Dref = []
    for i in range(n):
        acc = 0.0
        for k in range(B.shape[0]):
            if B[k, i] != 0.0:
                acc = acc + float(B[k, i] / sig[k] ** 2) * data[k]
        Dref.append(acc)
    return Bs, Aref, Dref


def _edge_ids(shape):
    rows, cols = shape
    return [r * cols + c for r in range(rows) for c in range(cols) if r in (0, rows - 1) or c in (0, cols - 1)]


def body_inversion(inp, objs, w_tilde, positive, warm, edge, history):
    data = list(np.asarray(inp["data"], dtype=object).reshape(-1))
    aa, mask, mask_arr, noise2d, dataset = _dataset_pieces(data)
    lin_objs, shapes = _linear_objs(aa, mask, dataset, objs)
    Bs, Aref, Dref = _reference_system(mask_arr, noise2d, lin_objs, shapes, data)
    n = Aref.shape[0]
    settings = aa.SettingsInversion(use_w_tilde=w_tilde, use_positive_only_solver=positive,
                                    positive_only_uses_p_initial=warm, force_edge_pixels_to_zeros=edge,
                                    no_regularization_add_to_curvature_diag_value=DIAG_ADD)
    Aout, Eout = {}, {}
    preloads = None
    if history:
        Fref = Aref.copy()
        Fref[:, :] -= np.array(lin_objs[0].regularization.regularization_matrix_from(linear_obj=lin_objs[0]), dtype=float)
        preloads = aa.Preloads(curvature_matrix=Fref.copy())
    forced = []
    if positive and edge and shapes[0] is not None:
        forced = _edge_ids(shapes[0])
    free = [i for i in range(n) if i not in forced]
    tau = _tau()
    for run in range(max(1, history)):
        tag = "" if not history else "inversion%d_" % (run + 1)
        kw = {"preloads": preloads} if preloads is not None else {}
        inv = aa.Inversion(dataset=dataset, linear_obj_list=lin_objs, settings=settings, **kw)
        r = hx.attempt(lambda: inv.reconstruction)
        if isinstance(r, hx.Raised):
            if positive:
                Aout[tag + "returns_a_solution"] = "raised %s %s" % (r.name, r.msg)
                Eout[tag + "returns_a_solution"] = "ok"
            else:
                Aout[tag + "solves_or_raises_InversionException"] = r.name
                Eout[tag + "solves_or_raises_InversionException"] = "InversionException"
            continue
        s = _vec(r)
        Aout[tag + "solution"] = np.array(s, dtype=object)
        if len(s) != n:
            Aout[tag + "returns_a_solution"] = "length %d" % len(s)
            Eout[tag + "returns_a_solution"] = "ok"
            continue
        if positive:
            Aout[tag + "forced_parameters_are_zero"] = [s[i] for i in forced]
            Eout[tag + "forced_parameters_are_zero"] = [0.0 for i in forced]
            kkt([[Aref[i, j] for j in free] for i in free], [Dref[i] for i in free], [s[i] for i in free], tau,
                tag, Aout, Eout)
        else:
            res = True
            for i in range(n):
                acc = -Dref[i]
                for j in range(n):
                    if Aref[i, j] != 0.0:
                        acc = acc + float(Aref[i, j]) * s[j]
                res = _and(res, _abs_le(acc, tau))
            Aout[tag + "solves_or_raises_InversionException"] = res
            Eout[tag + "solves_or_raises_InversionException"] = True
        # per-object views
        rd = hx.attempt(lambda: [_vec(v) for v in inv.reconstruction_dict.values()])
        off, exp_rd = 0, []
        for Bk in Bs:
            exp_rd.append(s[off:off + Bk.shape[1]])
            off += Bk.shape[1]
        Aout[tag + "reconstruction_dict"] = rd
        Eout[tag + "reconstruction_dict"] = exp_rd
        md = hx.attempt(lambda: [_vec(v) for v in inv.mapped_reconstructed_data_dict.values()])
        tot = hx.attempt(lambda: _vec(inv.mapped_reconstructed_data))
        exp_md = []
        for Bk, sk in zip(Bs, exp_rd):
            col = []
            for i in range(Bk.shape[0]):
                acc = 0.0
                for j in range(Bk.shape[1]):
                    if Bk[i, j] != 0.0:
                        acc = acc + float(Bk[i, j]) * sk[j]
                col.append(acc)
            exp_md.append(col)
        Aout[tag + "mapped_data_per_object"] = md
        Eout[tag + "mapped_data_per_object"] = exp_md
        if not isinstance(md, hx.Raised) and not isinstance(tot, hx.Raised):
            ssum = []
            for i in range(len(tot)):
                acc = 0.0
                for part in md:
                    acc = acc + part[i]
                ssum.append(acc)
            Aout[tag + "mapped_data_sum_to_total"] = tot
            Eout[tag + "mapped_data_sum_to_total"] = ssum
        else:
            Aout[tag + "mapped_data_sum_to_total"] = tot
            Eout[tag + "mapped_data_sum_to_total"] = "a vector"
    if preloads is not None:
        Aout["preloaded_curvature_matrix_unchanged"] = np.array(preloads.curvature_matrix, dtype=float)
        Eout["preloaded_curvature_matrix_unchanged"] = Fref
    return Aout, Eout


class _AllBut:
    """`only` filter for hx.check_all: every key except those with the given marker"""

    def __init__(self, marker):
        self.marker = marker

    def __bool__(self):
        return True

    def __contains__(self, k):
        return self.marker not in k


def _check_linear_in_solution(ctx, key, actual, expected, sol, tol=1e-9):
    """obligation `actual == expected` (relative tolerance) where both sides are linear forms in the entries of the
    returned reconstruction `sol`.  First decided with the solution entries abstracted to fresh variables sigma_j
    (a generalisation: linear real arithmetic, no path condition needed; tolerance relative to 1 + sum |sigma_j|);
    if that does not come back unsat the concrete obligation is decided under the path condition as usual."""
    sa, fa = hx._flat(actual)
    se, fe = hx._flat(expected)
    if isinstance(actual, hx.Raised) or isinstance(expected, (hx.Raised, str)) or sa != se:
        return ctx.check(key, hx.eq_terms(actual, expected, tol))
    pairs, sig = [], []
    for j, e in enumerate(sol):
        if V.is_sym(e):
            v = z3.Real("sigma_%d" % j)
            pairs.append((V.to_real_term(e), v))
            sig.append(v)
    bound = V.rval(tol) * (1 + z3.Sum([z3.If(v >= 0, v, -v) for v in sig])) if sig else V.rval(tol)
    viol = []
    for x, y in zip(fa, fe):
        d = V.to_real_term(x) - V.to_real_term(y) if (V.is_sym(x) or V.is_sym(y)) else V.rval(float(x) - float(y))
        d = z3.simplify(z3.substitute(d, *pairs)) if pairs else z3.simplify(d)
        viol.append(z3.Or(d > bound, -d > bound))
    slv = z3.Solver()
    slv.set("timeout", 10000)
    slv.add(z3.Or(*viol))
    ctx.stats.queries += 1
    if str(slv.check()) == "unsat":
        return ctx.check(key, True)
    return ctx.check(key, hx.eq_terms(actual, expected, tol))


def case_inversion(ctx, **cfg):
    data = V.real_array("data", (9,))
    _box(ctx, data)
    ctx.set_case(**cfg)
    known = None
    _STATE["margin"] = True
    try:
        actual, expected = hx.run_body(ctx, body_inversion, {"data": data}, cfg, validate_every=1, known=known,
                                       only=_AllBut("mapped_data"))
        for k in expected:
            if "mapped_data" in k:
                tag = k[:k.index("mapped_data")]
                sol = actual.get(tag + "solution")
                _check_linear_in_solution(ctx, k, actual.get(k), expected[k], list(sol) if sol is not None else [])
    finally:
        _STATE["margin"] = False


# ---------------------------------------------------------------------------------------------------------------
MATS2 = [
    [[2.0, 1.0], [1.0, 2.0]],            # mild positive correlation
    [[1.0, 2.0], [2.0, 5.0]],            # strongly correlated columns, unequal norms
    [[2.0, -1.0], [-1.0, 2.0]],          # anti-correlated (regularisation-like off-diagonal)
    [[4.0, 0.0], [0.0, 1.0]],            # orthogonal columns
    [[1.25, 0.75], [0.75, 2.5]],
    [[1.0, -1.5], [-1.5, 3.0]],          # strongly anti-correlated
]
MATS3 = [
    [[16.0, 14.0, 9.0], [14.0, 32.0, 19.0], [9.0, 19.0, 18.0]],      # correlated columns (Z^T Z of a small integer Z)
    [[3.0, -1.0, 0.0], [-1.0, 3.0, -1.0], [0.0, -1.0, 3.0]],         # curvature + constant regularisation of a 1x3 mesh
    [[4.0, 3.0, 2.0], [3.0, 4.0, 3.0], [2.0, 3.0, 4.0]],             # strongly correlated, Toeplitz
    [[2.0, -1.0, 1.0], [-1.0, 3.0, 0.5], [1.0, 0.5, 1.5]],           # mixed signs
]

BODIES = {"case_solver": body_solver, "case_unconstrained": body_unconstrained, "case_inversion": body_inversion}
EXPLORER_OPTS = {"timeout_ms": 20000, "max_paths": 20000, "max_decisions": 120, "logic": "QF_NRA", "max_candidates": 3}
BUDGET_S = {"quick": 900, "thorough": 2300}

BOUNDS = {"quick": "", "thorough": ""}
OUTSIDE = []
STUBS = []
ASSUMPTIONS = []


def cases(tier):
    out = []
    for A in MATS2:
        for mode in ("cold", "warm"):
            out.append(("case_solver", {"A": A, "mode": mode}))
    out.append(("case_solver", {"A": MATS2[1], "mode": "direct"}))
    for A in MATS2[:3]:
        out.append(("case_unconstrained", {"A": A, "ranges": [[0, 2]], "force": False}))
    out.append(("case_unconstrained", {"A": MATS3[1], "ranges": [[0, 2], [2, 3]], "force": True}))
    m3 = MATS3[:1] if tier == "quick" else MATS3
    for A in m3:
        for mode in ("cold", "warm"):
            out.append(("case_solver", {"A": A, "mode": mode}, {"split": 4}))
    return out


def replay(cand):
    _STATE["replay"] = True
    try:
        return hx.replay_body(BODIES[cand["case_fn"]], cand)
    finally:
        _STATE["replay"] = False
