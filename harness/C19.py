"""C19 - layout regions rotate and extract consistently with the arrays they index.

Two deciding engines over the REAL autoarray.layout code:
  * symx: the real functions / classes run on z3 integer proxies (region coordinates, shapes, pixel ranges, windows,
    probe pixels) and z3 real proxies (array values); every obligation is a z3 query under the path condition.
  * CrossHair (z3 underneath): PEP316 contract functions `ch_*` below call the same real functions on CrossHair's
    symbolic ints; 'Confirmed over all paths' discharges the obligation, a counterexample is replayed natively.
"""
import ast
import os
import re
import subprocess
import sys

import numpy as np
import z3

import autoarray as aa
from autoarray import exc as aa_exc
from autoarray.layout import layout_util

from symx import hx, values as V

PROPERTY = "C19"
FUNCTIONS = [
    "autoarray.layout.layout_util.rotate_array_via_roe_corner_from",
    "autoarray.layout.layout_util.rotate_region_via_roe_corner_from",
    "autoarray.layout.layout_util.region_after_extraction",
    "autoarray.layout.layout_util.x0x1_after_extraction",
    "autoarray.layout.region.Region1D.__init__",
    "autoarray.layout.region.Region1D.slice",
    "autoarray.layout.region.Region1D.front_region_from",
    "autoarray.layout.region.Region1D.trailing_region_from",
    "autoarray.layout.region.Region2D.__init__",
    "autoarray.layout.region.Region2D.slice",
    "autoarray.layout.region.Region2D.serial_x_front_range_from",
    "autoarray.layout.region.Region2D.parallel_front_region_from",
    "autoarray.layout.region.Region2D.parallel_trailing_region_from",
    "autoarray.layout.region.Region2D.parallel_full_region_from",
    "autoarray.layout.region.Region2D.serial_front_region_from",
    "autoarray.layout.region.Region2D.serial_trailing_region_from",
    "autoarray.layout.region.Region2D.serial_towards_roe_full_region_from",
    "autoarray.layout.layout.Layout1D.__init__",
    "autoarray.layout.layout.Layout1D.extract_overscan_array_1d_from",
    "autoarray.layout.layout.Layout2D.__init__",
    "autoarray.layout.layout.Layout2D.rotated_from_roe_corner",
    "autoarray.layout.layout.Layout2D.new_rotated_from",
    "autoarray.layout.layout.Layout2D.layout_extracted_from",
    "autoarray.layout.layout.Layout2D.original_orientation_from",
    "autoarray.layout.layout.Layout2D.extract_parallel_overscan_array_2d_from",
    "autoarray.layout.layout.Layout2D.extract_serial_overscan_array_from",
    "autoarray.structures.arrays.uniform_2d.AbstractArray2D.original_orientation",
]
CMAX = 10 ** 6
BOUNDS = {
    "quick": "integer laws (constructors, front/trailing/full sub-regions, 1D/2D extraction, region rotation, layouts): every coordinate, "
             "pixel range, window bound, probe pixel and the array shape are solver integers with |value| <= 10^6 (CrossHair twins: unbounded "
             "ints); read-out corner: both components solver integers in {0,1} (4 corners by forking). Array laws: array values symbolic reals; "
             "rotation/commutation on every shape with sides <= 5 and at most 16 pixels, with every region inside it (region bounds are solver "
             "integers, the slice bounds are concretised by forking) and, without concretisation, per-pixel membership/position for every shape <= 6x6 (pixel permutation "
             "taken from the real rotate_array on a label array); extraction through Layout2D/Array2D on every shape <= 3x3 with every "
             "region and every window inside it, Layout1D / Region1D extraction on lengths <= 5 with every mask (>= 1 unmasked pixel, forked) and both Array1D storages; masked Array2D objects with a history (fresh / in-place update over "
             "the region / derived by arithmetic / skip_mask buffer; both storages): every mask with >= 1 masked and >= 1 unmasked pixel of every "
             "shape with <= 4 pixels and of 2x3 (masks by forking), every region, every corner, values and increment symbolic reals",
    "thorough": "same integer laws; array rotation/commutation on every shape <= 7x7, label-permutation law <= 8x8, "
                "array extraction on shapes <= 4x4, Layout1D lengths <= 8 (every mask up to length 7); masked Array2D histories: every mask of shapes with <= 6 pixels; "
                "CrossHair per-condition timeout 300 s",
}
OUTSIDE = [
    "array shapes beyond the enumerated bounds for the array-level laws (the integer laws carry the shape as a solver integer)",
    "roe_corner values other than the four tuples (1,0),(0,0),(1,1),(0,1) (rotate_* return None for anything else, also for lists)",
    "regions given as anything but int tuples / Region objects (float or numpy coordinates)",
    "Layout2D.shape_2d of an extracted layout is only observed through the composition extract-then-rotate (known finding "
    "extracted-layout-stale-shape), not compared as an attribute",
    "rotate_pattern_ci_via_roe_corner_from (PyAutoCTI pattern objects), binned overscan arrays (means, C08/C14 territory)",
]
STUBS = []
ASSUMPTIONS = [
    "parent regions of sub-region / extraction / rotation laws are valid (0 <= y0 < y1, 0 <= x0 < x1); for rotation they lie inside the shape",
    "CrossHair's 'Confirmed over all paths' verdict is trusted for the ch_* contract twins (each law is also decided by symx/z3)",
]
EXPLORER_OPTS = {"timeout_ms": 20000, "max_paths": 200000}
BUDGET_S = {"quick": 900, "thorough": 2300}
RE = "RegionException"
CORNERS = [(1, 0), (0, 0), (1, 1), (0, 1)]
SLOTS = ["parallel_overscan", "serial_prescan", "serial_overscan"]


def _known(*ids):
    live = set(filter(None, os.environ.get("VERIF_KNOWN", "").split(",")))
    return [i for i in ids if i in live]


# ----------------------------------------------------------------------------------------------- small helpers

def _i(x):
    return x if V.is_sym(x) else int(x)


def _il(xs):
    return [_i(x) for x in list(np.asarray(xs).reshape(-1) if isinstance(xs, np.ndarray) else xs)]


def _any(*cs):
    r = False
    for c in cs:
        r = r | c
    return r


def _all(*cs):
    r = True
    for c in cs:
        r = r & c
    return r


def _max(a, b):
    if V.is_sym(a) or V.is_sym(b):
        return V.SymInt(z3.If(V.to_int_term(a) >= V.to_int_term(b), V.to_int_term(a), V.to_int_term(b)))
    return max(a, b)


def _min(a, b):
    if V.is_sym(a) or V.is_sym(b):
        return V.SymInt(z3.If(V.to_int_term(a) <= V.to_int_term(b), V.to_int_term(a), V.to_int_term(b)))
    return min(a, b)


def ref_region(c):
    """the documented validation rule: any negative coordinate or an empty extent is rejected, anything else is kept as given"""
    c = list(c)
    bad = _any(*([x < 0 for x in c] + [c[k] >= c[k + 1] for k in range(0, len(c), 2)]))
    if bad:                       # forks when symbolic
        return hx.Raised(RE)
    return c


def got(r):
    if r is None or isinstance(r, hx.Raised):
        return r
    return list(r.region)


def inside(c, p, q=None):
    """pixel membership in a half-open region"""
    if len(c) == 2:
        return _all(c[0] <= p, p < c[1])
    return _all(c[0] <= p, p < c[1], c[2] <= q, q < c[3])


def ref_flip(a, corner):
    """independent reference for the corner rotation: rows are reversed iff the corner is in row 0 ('top'),
    columns are reversed iff the corner is in column 1 ('right'), so that the corner lands on (1, 0)"""
    a = np.asarray(a)
    h, w = a.shape
    out = np.empty((h, w), dtype=a.dtype)
    for i in range(h):
        for j in range(w):
            out[i, j] = a[h - 1 - i if corner[0] == 0 else i, w - 1 - j if corner[1] == 1 else j]
    return out


def ref_rot_region(c, shape, corner):
    """image of the half-open region under the same flips"""
    y0, y1, x0, x1 = c
    if corner[0] == 0:
        y0, y1 = shape[0] - y1, shape[0] - y0
    if corner[1] == 1:
        x0, x1 = shape[1] - x1, shape[1] - x0
    return [y0, y1, x0, x1]


def _bounded(ctx, *xs, lo=-CMAX, hi=CMAX):
    for x in xs:
        ctx.assume(z3.And(x.t >= lo, x.t <= hi))


def _ints(ctx, prefix, n, lo=-CMAX, hi=CMAX):
    xs = [V.integer("%s%d" % (prefix, k)) for k in range(n)]
    _bounded(ctx, *xs, lo=lo, hi=hi)
    return xs


def _valid2d(ctx, r, shape=None):
    ctx.assume(z3.And(r[0].t >= 0, r[0].t < r[1].t, r[2].t >= 0, r[2].t < r[3].t))
    if shape is not None:
        H, W = (V.to_int_term(s) for s in shape)
        ctx.assume(z3.And(r[1].t <= H, r[3].t <= W))


def _not(x):
    return ~x if V.is_sym(x) else (not x)


def _corner(ctx):
    c = _ints(ctx, "corner", 2, 0, 1)
    return c


def _conc_corner(c):
    """concretise the corner (forks over the four tuples when symbolic)"""
    return tuple(int(x) for x in (list(c)))


# ----------------------------------------------------------------------------------------------- constructors

def body_ctor(inp, dim):
    c = _il(inp["r"])
    A, E = {}, {}
    cls = aa.Region2D if dim == 2 else aa.Region1D
    r = hx.attempt(lambda: cls(tuple(c)))
    A["ctor"] = got(r)
    E["ctor"] = ref_region(c)
    ok = not isinstance(E["ctor"], hx.Raised)
    # layouts convert tuples through the same validation
    if dim == 2:
        for slot in SLOTS:
            L = hx.attempt(lambda: aa.Layout2D(shape_2d=(7, 9), **{slot: tuple(c)}))
            A["Layout2D." + slot] = L if isinstance(L, hx.Raised) else got(getattr(L, slot))
            E["Layout2D." + slot] = E["ctor"]
    else:
        for slot in ("prescan", "overscan"):
            L = hx.attempt(lambda: aa.Layout1D(shape_1d=(9,), **{slot: tuple(c)}))
            A["Layout1D." + slot] = L if isinstance(L, hx.Raised) else got(getattr(L, slot))
            E["Layout1D." + slot] = E["ctor"]
    if ok and not isinstance(r, hx.Raised):
        if dim == 2:
            s = r.slice
            A["slice"] = [s[0].start, s[0].stop, s[1].start, s[1].stop]
            E["slice"] = c
            A["slice_steps"] = [s[0].step is None, s[1].step is None, len(s) == 2]
            E["slice_steps"] = [True, True, True]
            A["y_slice"] = [r.y_slice.start, r.y_slice.stop, r.y_slice.step is None]
            E["y_slice"] = [c[0], c[1], True]
            A["x_slice"] = [r.x_slice.start, r.x_slice.stop, r.x_slice.step is None]
            E["x_slice"] = [c[2], c[3], True]
            A["coords"] = [r.y0, r.y1, r.x0, r.x1, r[0], r[1], r[2], r[3]]
            E["coords"] = c + c
            A["extent"] = [r.total_rows, r.total_columns, r.shape[0], r.shape[1]]
            E["extent"] = [c[1] - c[0], c[3] - c[2], c[1] - c[0], c[3] - c[2]]
        else:
            A["slice"] = [r.slice.start, r.slice.stop, r.slice.step is None, r.x_slice.start, r.x_slice.stop, r.x_slice.step is None]
            E["slice"] = [c[0], c[1], True, c[0], c[1], True]
            A["coords"] = [r.x0, r.x1, r[0], r[1], r.total_pixels]
            E["coords"] = [c[0], c[1], c[0], c[1], c[1] - c[0]]
    return A, E


def case_ctor(ctx, dim):
    r = _ints(ctx, "r", 2 * dim)
    hx.run_body(ctx, body_ctor, {"r": r}, {"dim": dim}, validate_every=1)


# ----------------------------------------------------------------------------------------------- sub-regions

# method -> (call on the real class, expected coordinates "counted from the parent edge they are named for")
SUB2D = {
    "parallel_front": (lambda r, a, b, n, S: r.parallel_front_region_from(pixels=(a, b)),
                       lambda y0, y1, x0, x1, a, b, n, S: [y0 + a, y0 + b, x0, x1]),
    "parallel_front_from_end": (lambda r, a, b, n, S: r.parallel_front_region_from(pixels_from_end=n),
                                lambda y0, y1, x0, x1, a, b, n, S: [y1 - n, y1, x0, x1]),
    "parallel_trailing": (lambda r, a, b, n, S: r.parallel_trailing_region_from(pixels=(a, b)),
                          lambda y0, y1, x0, x1, a, b, n, S: [y1 + a, y1 + b, x0, x1]),
    "parallel_trailing_default": (lambda r, a, b, n, S: r.parallel_trailing_region_from(),
                                  lambda y0, y1, x0, x1, a, b, n, S: [y1, y1 + 1, x0, x1]),
    "parallel_full": (lambda r, a, b, n, S: r.parallel_full_region_from(shape_2d=S),
                      lambda y0, y1, x0, x1, a, b, n, S: [y0, y1, 0, S[1]]),
    "serial_front": (lambda r, a, b, n, S: r.serial_front_region_from(pixels=(a, b)),
                     lambda y0, y1, x0, x1, a, b, n, S: [y0, y1, x0 + a, x0 + b]),
    "serial_front_from_end": (lambda r, a, b, n, S: r.serial_front_region_from(pixels_from_end=n),
                              lambda y0, y1, x0, x1, a, b, n, S: [y0, y1, x1 - n, x1]),
    "serial_trailing": (lambda r, a, b, n, S: r.serial_trailing_region_from(pixels=(a, b)),
                        lambda y0, y1, x0, x1, a, b, n, S: [y0, y1, x1 + a, x1 + b]),
    "serial_trailing_default": (lambda r, a, b, n, S: r.serial_trailing_region_from(),
                                lambda y0, y1, x0, x1, a, b, n, S: [y0, y1, x1, x1 + 1]),
    "serial_towards_roe_full": (lambda r, a, b, n, S: r.serial_towards_roe_full_region_from(shape_2d=S, pixels=(a, b)),
                                lambda y0, y1, x0, x1, a, b, n, S: [0, S[0], x0 + a, x0 + b]),
}
SUB1D = {
    "front": (lambda r, a, b, n: r.front_region_from(pixels=(a, b)), lambda x0, x1, a, b, n: [x0 + a, x0 + b]),
    "front_from_end": (lambda r, a, b, n: r.front_region_from(pixels_from_end=n), lambda x0, x1, a, b, n: [x1 - n, x1]),
    "trailing": (lambda r, a, b, n: r.trailing_region_from(pixels=(a, b)), lambda x0, x1, a, b, n: [x1 + a, x1 + b]),
}


def body_sub2d(inp, method):
    c = _il(inp["r"])
    a, b = _il(inp["pix"])
    n = _i(inp["n"][0])
    S = tuple(_il(inp["shape"]))
    p, q = _il(inp["probe"])
    call, ref = SUB2D[method]
    parent = aa.Region2D(tuple(c))
    A, E = {}, {}
    res = hx.attempt(lambda: call(parent, a, b, n, S))
    A[method] = got(res)
    want = ref(c[0], c[1], c[2], c[3], a, b, n, S)
    E[method] = ref_region(want)
    if not isinstance(res, hx.Raised) and not isinstance(E[method], hx.Raised):
        # the same fact stated per pixel: a probe pixel lies in the returned region iff it lies in the requested rows/columns
        A[method + ".member"] = inside(got(res), p, q)
        E[method + ".member"] = inside(want, p, q)
    if method == "serial_front":
        A["serial_x_front_range"] = hx.attempt(lambda: list(parent.serial_x_front_range_from(pixels=(a, b))))
        E["serial_x_front_range"] = [c[2] + a, c[2] + b]
    return A, E


def case_sub2d(ctx, method):
    r = _ints(ctx, "r", 4)
    _valid2d(ctx, r)
    pix, n, shape, probe = _ints(ctx, "pix", 2), _ints(ctx, "n", 1), _ints(ctx, "shape", 2, 1, CMAX), _ints(ctx, "probe", 2)
    hx.run_body(ctx, body_sub2d, {"r": r, "pix": pix, "n": n, "shape": shape, "probe": probe}, {"method": method}, validate_every=1)


def body_sub1d(inp, method):
    c = _il(inp["r"])
    a, b = _il(inp["pix"])
    n = _i(inp["n"][0])
    p = _i(inp["probe"][0])
    call, ref = SUB1D[method]
    parent = aa.Region1D(tuple(c))
    A, E = {}, {}
    res = hx.attempt(lambda: call(parent, a, b, n))
    A[method] = got(res)
    want = ref(c[0], c[1], a, b, n)
    E[method] = ref_region(want)
    if not isinstance(res, hx.Raised) and not isinstance(E[method], hx.Raised):
        A[method + ".member"] = inside(got(res), p)
        E[method + ".member"] = inside(want, p)
    return A, E


def case_sub1d(ctx, method):
    r = _ints(ctx, "r", 2)
    ctx.assume(z3.And(r[0].t >= 0, r[0].t < r[1].t))
    pix, n, probe = _ints(ctx, "pix", 2), _ints(ctx, "n", 1), _ints(ctx, "probe", 1)
    hx.run_body(ctx, body_sub1d, {"r": r, "pix": pix, "n": n, "probe": probe}, {"method": method}, validate_every=1)


# ----------------------------------------------------------------------------------------------- extraction (integers)

def ref_overlap_1d(o0, o1, e0, e1):
    lo, hi = _max(o0, e0), _min(o1, e1)
    if lo < hi:                   # forks when symbolic
        return [lo - e0, hi - e0]
    return None


def body_extract_1d(inp):
    o0, o1 = _il(inp["o"])
    e0, e1 = _il(inp["e"])
    p = _i(inp["probe"][0])
    A, E = {}, {}
    res = hx.attempt(lambda: list(layout_util.x0x1_after_extraction(x0o=o0, x1o=o1, x0e=e0, x1e=e1)))
    ref = ref_overlap_1d(o0, o1, e0, e1)
    if not isinstance(res, hx.Raised) and any(x is None for x in res):
        A["x0x1"] = "absent" if all(x is None for x in res) else "partly None: %r" % (res,)
    else:
        A["x0x1"] = res
    E["x0x1"] = "absent" if ref is None else ref
    if not isinstance(res, hx.Raised):
        # per pixel: index p of the extracted window is addressed iff original pixel p + x0e lies in window and region
        A["member"] = False if res[0] is None or res[1] is None else inside(res, p)
        E["member"] = _all(0 <= p, p + e0 < e1, o0 <= p + e0, p + e0 < o1)
    return A, E


def case_extract_1d(ctx):
    o, e, probe = _ints(ctx, "o", 2), _ints(ctx, "e", 2), _ints(ctx, "probe", 1)
    ctx.assume(z3.And(o[0].t >= 0, o[0].t < o[1].t, e[0].t >= 0, e[0].t < e[1].t))
    hx.run_body(ctx, body_extract_1d, {"o": o, "e": e, "probe": probe}, {}, validate_every=1)


def ref_overlap_2d(o, e):
    ylo, yhi, xlo, xhi = _max(o[0], e[0]), _min(o[1], e[1]), _max(o[2], e[2]), _min(o[3], e[3])
    if _all(ylo < yhi, xlo < xhi):
        return [ylo - e[0], yhi - e[0], xlo - e[2], xhi - e[2]]
    return None


def ref_member_2d(o, e, p, q):
    return _all(0 <= p, p + e[0] < e[1], 0 <= q, q + e[2] < e[3], inside(o, p + e[0], q + e[2]))


def body_extract_2d(inp, form):
    e = _il(inp["e"])
    p, q = _il(inp["probe"])
    A, E = {}, {}
    if form == "none":
        A["absent_region_stays_absent"] = hx.attempt(lambda: layout_util.region_after_extraction(original_region=None, extraction_region=tuple(e)))
        E["absent_region_stays_absent"] = None
        return A, E
    o = _il(inp["o"])
    orig = aa.Region2D(tuple(o)) if form == "region" else tuple(o)
    extr = tuple(e) if form == "region" else aa.Region2D(tuple(e))
    res = hx.attempt(lambda: layout_util.region_after_extraction(original_region=orig, extraction_region=extr))
    A["region_after_extraction"] = got(res)
    E["region_after_extraction"] = ref_overlap_2d(o, e)
    if not isinstance(res, hx.Raised):
        A["member"] = False if res is None else inside(got(res), p, q)
        E["member"] = ref_member_2d(o, e, p, q)
    return A, E


def case_extract_2d(ctx, form):
    o, e, probe = _ints(ctx, "o", 4), _ints(ctx, "e", 4), _ints(ctx, "probe", 2)
    _valid2d(ctx, o)
    _valid2d(ctx, e)
    hx.run_body(ctx, body_extract_2d, {"o": o, "e": e, "probe": probe}, {"form": form}, validate_every=4)


def body_layout_extracted(inp, slot):
    o, e = _il(inp["o"]), _il(inp["e"])
    S = tuple(_il(inp["shape"]))
    corner = _conc_corner(inp["corner"])
    p, q = _il(inp["probe"])
    A, E = {}, {}
    lay = aa.Layout2D(shape_2d=S, original_roe_corner=corner, **{slot: tuple(o)})
    new = hx.attempt(lambda: lay.layout_extracted_from(extraction_region=tuple(e)))
    if isinstance(new, hx.Raised):
        A["layout_extracted_from"], E["layout_extracted_from"] = new, "no exception"
        return A, E
    ref = ref_overlap_2d(o, e)
    for s in SLOTS:
        A[s] = got(getattr(new, s))
        E[s] = ref if s == slot else None
    A["member"] = False if getattr(new, slot) is None else inside(got(getattr(new, slot)), p, q)
    E["member"] = ref_member_2d(o, e, p, q)
    A["original_roe_corner"] = list(new.original_roe_corner)
    E["original_roe_corner"] = list(corner)
    # composition of the two laws: the extracted layout indexes the extracted window (shape = window shape), so rotating it
    # must agree with rotating that window - the rotated region is the image of the overlap inside the window
    if ref is not None and getattr(new, slot) is not None:
        rot = hx.attempt(lambda: new.new_rotated_from(roe_corner=corner))
        A["extract_then_rotate"] = rot if isinstance(rot, hx.Raised) else got(getattr(rot, slot))
        E["extract_then_rotate"] = ref_rot_region(ref, (e[1] - e[0], e[3] - e[2]), corner)
    A["parent_untouched"] = [got(getattr(lay, s)) == (o if s == slot else None) for s in SLOTS]
    E["parent_untouched"] = [True, True, True]
    return A, E


def case_layout_extracted(ctx, slot):
    o, e, probe, shape = _ints(ctx, "o", 4), _ints(ctx, "e", 4), _ints(ctx, "probe", 2), _ints(ctx, "shape", 2, 1, CMAX)
    _valid2d(ctx, o, shape)
    _valid2d(ctx, e, shape)
    corner = _corner(ctx)
    kn = None
    ids = _known("extracted-layout-stale-shape")
    if ids:
        # finding region: the rotation flips an axis along which the window is smaller than the parent shape kept in shape_2d
        region = z3.Or(z3.And(corner[0].t == 0, e[1].t - e[0].t != shape[0].t), z3.And(corner[1].t == 1, e[3].t - e[2].t != shape[1].t))
        kn = {"extract_then_rotate": {ids[0]: region}}
    hx.run_body(ctx, body_layout_extracted, {"o": o, "e": e, "probe": probe, "shape": shape, "corner": corner}, {"slot": slot},
                known=kn, validate_every=4)


# ----------------------------------------------------------------------------------------------- rotation (integers)

def body_rotate_region(inp):
    c = _il(inp["r"])
    S = tuple(_il(inp["shape"]))
    corner = _conc_corner(inp["corner"])
    i, j = _il(inp["probe"])
    A, E = {}, {}
    for form in ("region", "tuple"):
        reg = aa.Region2D(tuple(c)) if form == "region" else tuple(c)
        rot = hx.attempt(lambda: layout_util.rotate_region_via_roe_corner_from(region=reg, shape_native=S, roe_corner=corner))
        A["rotated." + form] = got(rot)
        E["rotated." + form] = ref_rot_region(c, S, corner)
    if isinstance(rot, hx.Raised) or rot is None:
        return A, E
    A["is_Region2D"] = isinstance(rot, aa.Region2D)
    E["is_Region2D"] = True
    rc = got(rot)
    A["inside_shape"] = _all(0 <= rc[0], rc[0] < rc[1], rc[1] <= S[0], 0 <= rc[2], rc[2] < rc[3], rc[3] <= S[1])
    E["inside_shape"] = True
    A["extent_kept"] = [rot.total_rows, rot.total_columns]
    E["extent_kept"] = [c[1] - c[0], c[3] - c[2]]
    back = hx.attempt(lambda: layout_util.rotate_region_via_roe_corner_from(region=rot, shape_native=S, roe_corner=corner))
    A["twice_is_identity"] = got(back)
    E["twice_is_identity"] = c
    # probe pixel (i, j) of the rotated array holds original pixel (a, b): membership and position inside the region commute
    a = S[0] - 1 - i if corner[0] == 0 else i
    b = S[1] - 1 - j if corner[1] == 1 else j
    A["member"] = inside(rc, i, j)
    E["member"] = inside(c, a, b)
    h, w = c[1] - c[0], c[3] - c[2]
    pa = h - 1 - (i - rc[0]) if corner[0] == 0 else i - rc[0]
    pb = w - 1 - (j - rc[2]) if corner[1] == 1 else j - rc[2]
    A["position"] = _any(_not(inside(rc, i, j)), _all(a - c[0] == pa, b - c[2] == pb))
    E["position"] = True
    A["absent_region_stays_absent"] = hx.attempt(lambda: layout_util.rotate_region_via_roe_corner_from(region=None, shape_native=S, roe_corner=corner))
    E["absent_region_stays_absent"] = None
    return A, E


def case_rotate_region(ctx):
    r, shape, probe = _ints(ctx, "r", 4), _ints(ctx, "shape", 2, 1, CMAX), _ints(ctx, "probe", 2)
    _valid2d(ctx, r, shape)
    ctx.assume(z3.And(probe[0].t >= 0, probe[0].t < shape[0].t, probe[1].t >= 0, probe[1].t < shape[1].t))
    corner = _corner(ctx)
    hx.run_body(ctx, body_rotate_region, {"r": r, "shape": shape, "probe": probe, "corner": corner}, {}, validate_every=1)


def body_rotate_layout(inp):
    regs = {s: _il(inp[s]) for s in SLOTS}
    S = tuple(_il(inp["shape"]))
    corner = _conc_corner(inp["corner"])
    other = _conc_corner(inp["other"])
    A, E = {}, {}
    lay = hx.attempt(lambda: aa.Layout2D.rotated_from_roe_corner(roe_corner=corner, shape_native=S, **{s: tuple(regs[s]) for s in SLOTS}))
    if isinstance(lay, hx.Raised):
        A["rotated_from_roe_corner"], E["rotated_from_roe_corner"] = lay, "no exception"
        return A, E
    for s in SLOTS:
        A["rotated_from_roe_corner." + s] = got(getattr(lay, s))
        E["rotated_from_roe_corner." + s] = ref_rot_region(regs[s], S, corner)
    A["rotated_from_roe_corner.meta"] = list(lay.original_roe_corner) + list(lay.shape_2d)
    E["rotated_from_roe_corner.meta"] = list(corner) + list(S)
    # the same rotation applied again restores every region
    back = hx.attempt(lambda: lay.new_rotated_from(roe_corner=corner))
    for s in SLOTS:
        A["same_rotation_twice." + s] = back if isinstance(back, hx.Raised) else got(getattr(back, s))
        E["same_rotation_twice." + s] = regs[s]
    # new_rotated_from rotates by the corner it is given, whatever corner the layout remembers
    lay2 = aa.Layout2D(shape_2d=S, original_roe_corner=other, **{s: tuple(regs[s]) for s in SLOTS})
    new = hx.attempt(lambda: lay2.new_rotated_from(roe_corner=corner))
    for s in SLOTS:
        A["new_rotated_from." + s] = new if isinstance(new, hx.Raised) else got(getattr(new, s))
        E["new_rotated_from." + s] = ref_rot_region(regs[s], S, corner)
    if not isinstance(new, hx.Raised):
        A["new_rotated_from.meta"] = list(new.original_roe_corner) + list(new.shape_2d)
        E["new_rotated_from.meta"] = list(corner) + list(S)
        A["parent_untouched"] = [got(getattr(lay2, s)) == regs[s] for s in SLOTS]
        E["parent_untouched"] = [True, True, True]
    # absent regions stay absent
    lay3 = hx.attempt(lambda: aa.Layout2D.rotated_from_roe_corner(roe_corner=corner, shape_native=S, serial_prescan=tuple(regs["serial_prescan"])))
    A["absent"] = lay3 if isinstance(lay3, hx.Raised) else [lay3.parallel_overscan is None, lay3.serial_overscan is None]
    E["absent"] = [True, True]
    return A, E


def case_rotate_layout(ctx):
    shape = _ints(ctx, "shape", 2, 1, CMAX)
    inputs = {"shape": shape, "corner": _corner(ctx)}
    other = [V.integer("other0"), V.integer("other1")]
    _bounded(ctx, *other, lo=0, hi=1)
    inputs["other"] = other
    for s in SLOTS:
        r = _ints(ctx, s + "_", 4)
        _valid2d(ctx, r, shape)
        inputs[s] = r
    hx.run_body(ctx, body_rotate_layout, inputs, {}, validate_every=1)


# ----------------------------------------------------------------------------------------------- rotation: label permutation

def body_rotate_perm(inp, H, W):
    """the pixel permutation comes from the REAL array rotation run on a label array; the region stays symbolic"""
    c = _il(inp["r"])
    corner = _conc_corner(inp["corner"])
    A, E = {}, {}
    labels = np.arange(H * W, dtype=float).reshape(H, W)
    rotL = hx.attempt(lambda: np.asarray(layout_util.rotate_array_via_roe_corner_from(array=labels, roe_corner=corner)))
    if isinstance(rotL, hx.Raised) or rotL.shape != (H, W):
        A["rotate_array"], E["rotate_array"] = repr(rotL), "array of the same shape"
        return A, E
    rot = hx.attempt(lambda: layout_util.rotate_region_via_roe_corner_from(region=aa.Region2D(tuple(c)), shape_native=(H, W), roe_corner=corner))
    if isinstance(rot, hx.Raised):
        A["rotate_region"], E["rotate_region"] = rot, "no exception"
        return A, E
    rc = got(rot)
    h, w = c[1] - c[0], c[3] - c[2]
    # labels of the content of the region, rotated as an array of its own: content[p, q] = label (y0 + p, x0 + q);
    # rotated content [p', q'] = content[flip(p'), flip(q')]  (reference flips, shape (h, w) symbolic)
    mem_a, mem_e, pos_a = [], [], []
    for i in range(H):
        for j in range(W):
            a, b = int(rotL[i, j]) // W, int(rotL[i, j]) % W
            m_rot = inside(rc, i, j)
            mem_a.append(m_rot)
            mem_e.append(inside(c, a, b))
            pi, pj = i - rc[0], j - rc[2]
            pa = h - 1 - pi if corner[0] == 0 else pi
            pb = w - 1 - pj if corner[1] == 1 else pj
            same = _all(c[0] + pa == a, c[2] + pb == b)
            pos_a.append(_any(_not(m_rot), same))
    A["member"], E["member"] = mem_a, mem_e
    A["position"], E["position"] = pos_a, [True] * (H * W)
    return A, E


def case_rotate_perm(ctx, H, W):
    r = _ints(ctx, "r", 4)
    _valid2d(ctx, r, (H, W))
    hx.run_body(ctx, body_rotate_perm, {"r": r, "corner": _corner(ctx)}, {"H": H, "W": W}, validate_every=1)


# ----------------------------------------------------------------------------------------------- rotation: arrays

def _arr2d(v, H, W, corner, store_native):
    from autoarray.structures.header import Header
    m = aa.Mask2D.all_false(shape_native=(H, W), pixel_scales=1.0)
    return aa.Array2D(values=v.copy(), mask=m, header=Header(original_roe_corner=corner), store_native=store_native)


def _vals(x):
    if isinstance(x, hx.Raised):
        return x
    return np.asarray(hx.unwrap(x))


def body_rotate_array(inp, H, W):
    v = np.asarray(inp["v"]).reshape(H, W)
    corner = _conc_corner(inp["corner"])
    c = [int(x) for x in _il(inp["r"])]          # slice bounds must be concrete: forks over the regions inside the shape
    A, E = {}, {}
    rot = lambda x: layout_util.rotate_array_via_roe_corner_from(array=x, roe_corner=corner)
    rotA = hx.attempt(lambda: rot(v))
    A["rotate_array"] = _vals(rotA)
    E["rotate_array"] = ref_flip(v, corner)
    if isinstance(rotA, hx.Raised):
        return A, E
    A["same_rotation_twice"] = _vals(hx.attempt(lambda: rot(rot(v))))
    E["same_rotation_twice"] = v
    reg = aa.Region2D(tuple(c))
    rotR = hx.attempt(lambda: layout_util.rotate_region_via_roe_corner_from(region=reg, shape_native=(H, W), roe_corner=corner))
    if isinstance(rotR, hx.Raised) or rotR is None:
        A["rotate_region"], E["rotate_region"] = repr(rotR), "a Region2D"
        return A, E
    content = v[c[0]:c[1], c[2]:c[3]]
    A["region_slice_is_content"] = _vals(hx.attempt(lambda: v[reg.slice]))
    E["region_slice_is_content"] = content
    A["commute"] = _vals(hx.attempt(lambda: rotA[rotR.slice]))
    E["commute"] = ref_flip(content, corner)
    A["commute_real_rotation_of_content"] = _vals(hx.attempt(lambda: rot(v[reg.slice])))
    E["commute_real_rotation_of_content"] = ref_flip(content, corner)
    # ---- through the classes: a layout described in the original orientation, data in the original orientation
    lay = hx.attempt(lambda: aa.Layout2D.rotated_from_roe_corner(roe_corner=corner, shape_native=(H, W), parallel_overscan=tuple(c), serial_overscan=tuple(c)))
    std = hx.attempt(lambda: _arr2d(np.asarray(rotA), H, W, corner, True))       # data rotated to the common orientation
    if isinstance(lay, hx.Raised) or isinstance(std, hx.Raised):
        A["classes"], E["classes"] = "layout=%r array=%r" % (lay, std), "constructed"
        return A, E
    A["Layout2D.extract_parallel_overscan"] = _vals(hx.attempt(lambda: lay.extract_parallel_overscan_array_2d_from(array=std).native))
    E["Layout2D.extract_parallel_overscan"] = ref_flip(content, corner)
    A["Layout2D.extract_serial_overscan"] = _vals(hx.attempt(lambda: lay.extract_serial_overscan_array_from(array=std).native))
    E["Layout2D.extract_serial_overscan"] = ref_flip(content, corner)
    A["Layout2D.original_orientation_from"] = _vals(hx.attempt(lambda: lay.original_orientation_from(array=np.asarray(rotA))))
    E["Layout2D.original_orientation_from"] = v
    A["Array2D.original_orientation"] = _vals(hx.attempt(lambda: std.original_orientation))
    E["Array2D.original_orientation"] = v
    back = hx.attempt(lambda: lay.new_rotated_from(roe_corner=corner))
    A["layout_back.region"] = back if isinstance(back, hx.Raised) else got(back.parallel_overscan)
    E["layout_back.region"] = c
    if not isinstance(back, hx.Raised):
        orig = hx.attempt(lambda: _arr2d(np.asarray(std.original_orientation), H, W, (1, 0), True))
        A["layout_back.extract"] = orig if isinstance(orig, hx.Raised) else _vals(hx.attempt(lambda: back.extract_parallel_overscan_array_2d_from(array=orig).native))
        E["layout_back.extract"] = content
    return A, E


def case_rotate_array(ctx, H, W):
    r = _ints(ctx, "r", 4)
    _valid2d(ctx, r, (H, W))
    hx.run_body(ctx, body_rotate_array, {"v": V.real_array("v", (H, W)), "r": r, "corner": _corner(ctx)}, {"H": H, "W": W}, validate_every=8)


def body_orientation_slim(inp, H, W):
    """Array2D in its default (slim) storage: original_orientation must still be the rotated 2D data"""
    v = np.asarray(inp["v"]).reshape(H, W)
    corner = _conc_corner(inp["corner"])
    A, E = {}, {}
    arr = _arr2d(v, H, W, corner, False)
    A["Array2D(slim).original_orientation"] = _vals(hx.attempt(lambda: arr.original_orientation))
    E["Array2D(slim).original_orientation"] = ref_flip(v, corner)
    return A, E


def case_orientation_slim(ctx, H, W):
    kn = None
    ids = _known("original-orientation-slim")
    if ids:
        kn = {"Array2D(slim).original_orientation": {ids[0]: z3.BoolVal(True)}}
    hx.run_body(ctx, body_orientation_slim, {"v": V.real_array("v", (H, W)), "corner": _corner(ctx)}, {"H": H, "W": W}, known=kn, validate_every=1)


# ----------------------------------------------------------------------------------------------- rotation: masked arrays with a history

def body_masked_orientation(inp, H, W):
    """masked Array2D objects (mask forked, both storages): regions index `array.native` (masked pixels are 0 there), so
    original_orientation must be the corner rotation of `array.native` for every history of the object - fresh, after an
    in-place update over a region that overlaps masked pixels (`arr[region.slice] += d`), and for native_skip_mask-style
    objects whose buffer holds values under the mask"""
    from autoarray.structures.header import Header
    mask = np.array(inp["mask"], dtype=bool).reshape(H, W)
    v = np.asarray(inp["v"]).reshape(H, W)
    d = inp["d"][0] if not np.isscalar(inp["d"]) else inp["d"]
    corner = _conc_corner(inp["corner"])
    c = [int(x) for x in _il(inp["r"])]          # region of the layout AND window of the in-place update (forked)
    A, E = {}, {}
    m = aa.Mask2D(mask=mask, pixel_scales=1.0)
    keep = np.invert(mask)
    zeroed = np.empty((H, W), dtype=object)
    upd = np.empty((H, W), dtype=object)
    for i in range(H):
        for j in range(W):
            zeroed[i, j] = v[i, j] if keep[i, j] else 0.0
            inr = c[0] <= i < c[1] and c[2] <= j < c[3]
            upd[i, j] = (v[i, j] + d if inr else v[i, j]) if keep[i, j] else 0.0
    reg = aa.Region2D(tuple(c))
    lay = aa.Layout2D(shape_2d=(H, W), original_roe_corner=corner, parallel_overscan=tuple(c), serial_overscan=tuple(c))
    lay_rot = lay.new_rotated_from(roe_corner=corner)
    rot = lambda x: layout_util.rotate_array_via_roe_corner_from(array=x, roe_corner=corner)

    def laws(tag, arr, native_ref):
        """all facts about one Array2D object whose native form must be native_ref"""
        nat = hx.attempt(lambda: np.asarray(hx.unwrap(arr.native)))
        A[tag + ".native"], E[tag + ".native"] = _vals(nat), native_ref
        ori = hx.attempt(lambda: np.asarray(hx.unwrap(arr.original_orientation)))
        A[tag + ".original_orientation"], E[tag + ".original_orientation"] = _vals(ori), ref_flip(native_ref, corner)
        if isinstance(ori, hx.Raised) or np.asarray(ori).shape != (H, W):
            return
        content = native_ref[c[0]:c[1], c[2]:c[3]]
        A[tag + ".extract"] = _vals(hx.attempt(lambda: lay.extract_parallel_overscan_array_2d_from(array=arr).native))
        E[tag + ".extract"] = content
        A[tag + ".extract_serial"] = _vals(hx.attempt(lambda: lay.extract_serial_overscan_array_from(array=arr).native))
        E[tag + ".extract_serial"] = content
        A[tag + ".commute"] = _vals(hx.attempt(lambda: ori[lay_rot.parallel_overscan.slice]))
        E[tag + ".commute"] = ref_flip(content, corner)
        A[tag + ".same_rotation_twice"] = _vals(hx.attempt(lambda: rot(ori)))
        E[tag + ".same_rotation_twice"] = native_ref

    for sn in (False, True):
        tag = "sn%d" % sn
        arr = hx.attempt(lambda: aa.Array2D(values=v.copy(), mask=m, header=Header(original_roe_corner=corner), store_native=sn))
        if isinstance(arr, hx.Raised):
            A[tag + ".Array2D"], E[tag + ".Array2D"] = arr, "constructed"
            continue
        laws(tag + ".fresh", arr, zeroed)
        if sn:
            # history: in-place update over the region (the add / zero region idiom); masked pixels inside it now hold d in the buffer
            r = hx.attempt(lambda: arr.__setitem__(reg.slice, arr[reg.slice] + d))
            if isinstance(r, hx.Raised):
                A[tag + ".inplace_update"], E[tag + ".inplace_update"] = r, "no exception"
                continue
            laws(tag + ".updated", arr, upd)
        else:
            # slim storage has no 2D in-place window; history through arithmetic (a derived object)
            arr2 = hx.attempt(lambda: arr + d)
            if isinstance(arr2, hx.Raised):
                A[tag + ".plus"], E[tag + ".plus"] = arr2, "no exception"
                continue
            plus = np.empty((H, W), dtype=object)
            for i in range(H):
                for j in range(W):
                    plus[i, j] = v[i, j] + d if keep[i, j] else 0.0
            laws(tag + ".plus", arr2, plus)
    # an object whose buffer holds the raw values under the mask without any history (native_skip_mask-style construction)
    raw = hx.attempt(lambda: aa.Array2D(values=v.copy(), mask=m, header=Header(original_roe_corner=corner), store_native=True, skip_mask=True))
    if isinstance(raw, hx.Raised):
        A["skip_mask.Array2D"], E["skip_mask.Array2D"] = raw, "constructed"
    else:
        laws("skip_mask", raw, zeroed)
    return A, E


def case_masked_orientation(ctx, H, W):
    mb = V.bool_array("m", (H, W))
    ctx.assume(z3.Or(*[z3.Not(b.t) for b in mb.reshape(-1)]))        # at least one unmasked pixel
    ctx.assume(z3.Or(*[b.t for b in mb.reshape(-1)]))                 # at least one masked pixel (unmasked arrays: case_rotate_array)
    mask = ctx.concrete_bools(mb)
    ctx.set_case(mask=mask.tolist())
    r = _ints(ctx, "r", 4)
    _valid2d(ctx, r, (H, W))
    inputs = {"mask": mask, "v": V.real_array("v", (H, W)), "d": [V.real("d")], "r": r, "corner": _corner(ctx)}
    hx.run_body(ctx, body_masked_orientation, inputs, {"H": H, "W": W}, validate_every=16)


# ----------------------------------------------------------------------------------------------- extraction: arrays

def body_extract_array(inp, H, W):
    v = np.asarray(inp["v"]).reshape(H, W)
    o = [int(x) for x in _il(inp["o"])]
    e = [int(x) for x in _il(inp["e"])]
    A, E = {}, {}
    lay = aa.Layout2D(shape_2d=(H, W), parallel_overscan=tuple(o), serial_overscan=tuple(o))
    window = aa.Region2D(tuple(e))
    sub = v[window.slice]
    new = hx.attempt(lambda: lay.layout_extracted_from(extraction_region=window))
    if isinstance(new, hx.Raised):
        A["layout_extracted_from"], E["layout_extracted_from"] = new, "no exception"
        return A, E
    ylo, yhi, xlo, xhi = max(o[0], e[0]), min(o[1], e[1]), max(o[2], e[2]), min(o[3], e[3])
    overlap = v[ylo:yhi, xlo:xhi] if (ylo < yhi and xlo < xhi) else None
    A["absent_iff_no_overlap"] = [new.parallel_overscan is None, new.serial_overscan is None, new.serial_prescan is None]
    E["absent_iff_no_overlap"] = [overlap is None, overlap is None, True]
    if overlap is None or new.parallel_overscan is None or new.serial_overscan is None:
        return A, E
    A["addresses_overlap"] = _vals(hx.attempt(lambda: sub[new.parallel_overscan.slice]))
    E["addresses_overlap"] = overlap
    m = aa.Mask2D.all_false(shape_native=sub.shape, pixel_scales=1.0)
    for sn in (False, True):
        arr = hx.attempt(lambda: aa.Array2D(values=sub.copy(), mask=m, store_native=sn))
        if isinstance(arr, hx.Raised):
            A["Array2D"], E["Array2D"] = arr, "constructed"
            return A, E
        A["extract_parallel_overscan.sn%d" % sn] = _vals(hx.attempt(lambda: new.extract_parallel_overscan_array_2d_from(array=arr).native))
        E["extract_parallel_overscan.sn%d" % sn] = overlap
        A["extract_serial_overscan.sn%d" % sn] = _vals(hx.attempt(lambda: new.extract_serial_overscan_array_from(array=arr).native))
        E["extract_serial_overscan.sn%d" % sn] = overlap
    return A, E


def case_extract_array(ctx, H, W):
    o, e = _ints(ctx, "o", 4), _ints(ctx, "e", 4)
    _valid2d(ctx, o, (H, W))
    _valid2d(ctx, e, (H, W))
    hx.run_body(ctx, body_extract_array, {"v": V.real_array("v", (H, W)), "o": o, "e": e}, {"H": H, "W": W}, validate_every=16)


def body_layout_1d(inp, N, masked=True):     # `masked` only selects how the case builds the mask
    """Region1D / Layout1D address NATIVE pixel positions of the 1D data: for every mask (forked) and both storages of the
    Array1D the extracted overscan is the native form (masked pixels 0) restricted to the region"""
    v = np.asarray(inp["v"]).reshape(N)
    mask = np.array(inp["mask"], dtype=bool).reshape(N)
    o = [int(x) for x in _il(inp["o"])]
    A, E = {}, {}
    lay = aa.Layout1D(shape_1d=(N,), overscan=tuple(o), prescan=tuple(o))
    A["Region1D.slice"] = _vals(hx.attempt(lambda: v[lay.overscan.slice]))
    E["Region1D.slice"] = v[o[0]:o[1]]
    native = np.empty(N, dtype=object)
    for k in range(N):
        native[k] = 0.0 if mask[k] else v[k]
    m = aa.Mask1D(mask=mask, pixel_scales=1.0)
    for sn in (False, True):
        tag = "sn%d" % sn
        arr = hx.attempt(lambda: aa.Array1D(values=v.copy(), mask=m, store_native=sn))
        if isinstance(arr, hx.Raised):
            A[tag + ".Array1D"], E[tag + ".Array1D"] = arr, "constructed"
            continue
        A[tag + ".native"] = _vals(hx.attempt(lambda: arr.native))
        E[tag + ".native"] = native
        A[tag + ".region_slices_native"] = _vals(hx.attempt(lambda: np.asarray(hx.unwrap(arr.native))[lay.overscan.slice]))
        E[tag + ".region_slices_native"] = native[o[0]:o[1]]
        ex = hx.attempt(lambda: lay.extract_overscan_array_1d_from(array=arr))
        A[tag + ".extract_overscan_array_1d"] = _vals(hx.attempt(lambda: ex.native)) if not isinstance(ex, hx.Raised) else ex
        E[tag + ".extract_overscan_array_1d"] = native[o[0]:o[1]]
        if not isinstance(ex, hx.Raised):
            A[tag + ".extract_is_unmasked_Array1D"] = [isinstance(ex, aa.Array1D), bool(np.asarray(ex.mask).any())]
            E[tag + ".extract_is_unmasked_Array1D"] = [True, False]
    return A, E


def case_layout_1d(ctx, N, masked=True):
    if masked:
        mb = V.bool_array("m", (N,))
        ctx.assume(z3.Or(*[z3.Not(b.t) for b in mb.reshape(-1)]))        # at least one unmasked pixel
        mask = ctx.concrete_bools(mb)
    else:
        mask = np.full((N,), False)
    ctx.set_case(mask=mask.tolist())
    o = _ints(ctx, "o", 2)
    ctx.assume(z3.And(o[0].t >= 0, o[0].t < o[1].t, o[1].t <= N))
    hx.run_body(ctx, body_layout_1d, {"mask": mask, "v": V.real_array("v", (N,)), "o": o}, {"N": N}, validate_every=8)


# ----------------------------------------------------------------------------------------------- CrossHair contract twins
# Each ch_* function calls the real code and returns whether the law holds; CrossHair must confirm `post: __return__`
# over all paths (ints unbounded).  They run natively in replay.

def _ch_region(f):
    try:
        r = f()
    except aa_exc.RegionException:
        return RE
    return None if r is None else tuple(r.region)


def _ch_ref(c):
    if any(x < 0 for x in c) or any(c[k] >= c[k + 1] for k in range(0, len(c), 2)):
        return RE
    return tuple(c)


def ch_ctor(y0: int, y1: int, x0: int, x1: int) -> bool:
    """
    post: __return__
    """
    r2 = _ch_region(lambda: aa.Region2D((y0, y1, x0, x1)))
    r1 = _ch_region(lambda: aa.Region1D((x0, x1)))
    ok = r2 == _ch_ref((y0, y1, x0, x1)) and r1 == _ch_ref((x0, x1))
    if r2 != RE:
        ok = ok and aa.Region2D((y0, y1, x0, x1)).slice == (slice(y0, y1), slice(x0, x1))
    if r1 != RE:
        ok = ok and aa.Region1D((x0, x1)).slice == slice(x0, x1)
    return ok


def ch_x0x1(x0o: int, x1o: int, x0e: int, x1e: int, p: int) -> bool:
    """
    pre: 0 <= x0o < x1o and 0 <= x0e < x1e
    post: __return__
    """
    r = tuple(layout_util.x0x1_after_extraction(x0o=x0o, x1o=x1o, x0e=x0e, x1e=x1e))
    lo, hi = max(x0o, x0e), min(x1o, x1e)
    member = r[0] is not None and r[0] <= p < r[1]
    return r == ((lo - x0e, hi - x0e) if lo < hi else (None, None)) and member == (0 <= p and x0e + p < x1e and x0o <= x0e + p < x1o)


def ch_region_after_extraction(oy0: int, oy1: int, ox0: int, ox1: int, ey0: int, ey1: int, ex0: int, ex1: int) -> bool:
    """
    pre: 0 <= oy0 < oy1 and 0 <= ox0 < ox1 and 0 <= ey0 < ey1 and 0 <= ex0 < ex1
    post: __return__
    """
    r = _ch_region(lambda: layout_util.region_after_extraction(original_region=(oy0, oy1, ox0, ox1), extraction_region=(ey0, ey1, ex0, ex1)))
    ylo, yhi, xlo, xhi = max(oy0, ey0), min(oy1, ey1), max(ox0, ex0), min(ox1, ex1)
    return r == ((ylo - ey0, yhi - ey0, xlo - ex0, xhi - ex0) if (ylo < yhi and xlo < xhi) else None)


def ch_rotate_region(y0: int, y1: int, x0: int, x1: int, H: int, W: int, c0: int, c1: int, i: int, j: int) -> bool:
    """
    pre: 0 <= y0 < y1 <= H and 0 <= x0 < x1 <= W and 0 <= c0 <= 1 and 0 <= c1 <= 1 and 0 <= i < H and 0 <= j < W
    post: __return__
    """
    corner = (1 if c0 else 0, 1 if c1 else 0)
    rot = layout_util.rotate_region_via_roe_corner_from(region=(y0, y1, x0, x1), shape_native=(H, W), roe_corner=corner)
    back = layout_util.rotate_region_via_roe_corner_from(region=rot, shape_native=(H, W), roe_corner=corner)
    a = H - 1 - i if corner[0] == 0 else i
    b = W - 1 - j if corner[1] == 1 else j
    ry0, ry1, rx0, rx1 = rot.region
    return (tuple(back.region) == (y0, y1, x0, x1) and 0 <= ry0 < ry1 <= H and 0 <= rx0 < rx1 <= W
            and ry1 - ry0 == y1 - y0 and rx1 - rx0 == x1 - x0
            and (ry0 <= i < ry1 and rx0 <= j < rx1) == (y0 <= a < y1 and x0 <= b < x1))


def ch_parallel_sub(y0: int, y1: int, x0: int, x1: int, a: int, b: int, n: int, W: int) -> bool:
    """
    pre: 0 <= y0 < y1 and 0 <= x0 < x1 and W >= 1
    post: __return__
    """
    r = aa.Region2D((y0, y1, x0, x1))
    return (_ch_region(lambda: r.parallel_front_region_from(pixels=(a, b))) == _ch_ref((y0 + a, y0 + b, x0, x1))
            and _ch_region(lambda: r.parallel_front_region_from(pixels_from_end=n)) == _ch_ref((y1 - n, y1, x0, x1))
            and _ch_region(lambda: r.parallel_trailing_region_from(pixels=(a, b))) == _ch_ref((y1 + a, y1 + b, x0, x1))
            and _ch_region(lambda: r.parallel_full_region_from(shape_2d=(y1, W))) == _ch_ref((y0, y1, 0, W)))


def ch_serial_sub(y0: int, y1: int, x0: int, x1: int, a: int, b: int, n: int, H: int) -> bool:
    """
    pre: 0 <= y0 < y1 and 0 <= x0 < x1 and H >= 1
    post: __return__
    """
    r = aa.Region2D((y0, y1, x0, x1))
    return (_ch_region(lambda: r.serial_front_region_from(pixels=(a, b))) == _ch_ref((y0, y1, x0 + a, x0 + b))
            and _ch_region(lambda: r.serial_front_region_from(pixels_from_end=n)) == _ch_ref((y0, y1, x1 - n, x1))
            and _ch_region(lambda: r.serial_trailing_region_from(pixels=(a, b))) == _ch_ref((y0, y1, x1 + a, x1 + b))
            and _ch_region(lambda: r.serial_towards_roe_full_region_from(shape_2d=(H, x1), pixels=(a, b))) == _ch_ref((0, H, x0 + a, x0 + b)))


def ch_sub_1d(x0: int, x1: int, a: int, b: int, n: int) -> bool:
    """
    pre: 0 <= x0 < x1
    post: __return__
    """
    r = aa.Region1D((x0, x1))
    return (_ch_region(lambda: r.front_region_from(pixels=(a, b))) == _ch_ref((x0 + a, x0 + b))
            and _ch_region(lambda: r.front_region_from(pixels_from_end=n)) == _ch_ref((x1 - n, x1))
            and _ch_region(lambda: r.trailing_region_from(pixels=(a, b))) == _ch_ref((x1 + a, x1 + b)))


CH_FUNCS = ["ch_ctor", "ch_x0x1", "ch_region_after_extraction", "ch_rotate_region", "ch_parallel_sub", "ch_serial_sub", "ch_sub_1d"]


def _repo_root():
    return os.path.dirname(os.path.dirname(os.path.abspath(aa.__file__)))


def _run_crosshair(fn, timeout_s):
    root = os.path.dirname(os.path.dirname(os.path.abspath(__file__)))
    env = dict(os.environ, PYTHONPATH=os.pathsep.join([_repo_root(), root]), PYTHONWARNINGS="ignore", PYTHONDONTWRITEBYTECODE="1")
    cmd = [sys.executable, "-m", "crosshair", "check", "--report_all", "--per_condition_timeout", str(timeout_s),
           "--per_path_timeout", str(max(5, timeout_s // 4)),
           # file:line form - the module is then imported before CrossHair arms its side-effect wall (scipy opens temp files on import)
           "%s:%d" % (os.path.join("harness", "C19.py"), globals()[fn].__code__.co_firstlineno)]
    try:
        p = subprocess.run(cmd, cwd=root, env=env, capture_output=True, text=True, timeout=timeout_s * 2 + 120)
    except subprocess.TimeoutExpired:
        return "unknown", "crosshair timed out", None
    lines = [ln for ln in (p.stdout + "\n" + p.stderr).splitlines() if "C19.py" in ln and (": info:" in ln or ": error:" in ln)]
    text = " | ".join(lines) if lines else (p.stdout + p.stderr)[-600:]
    if any("error:" in ln for ln in lines):
        m = re.search(r"when calling (%s\(.*?\))(?: \(which|$)" % fn, text)
        args = None
        if m:
            try:
                call = ast.parse(m.group(1), mode="eval").body
                args = [ast.literal_eval(a) for a in call.args]
                kw = {k.arg: ast.literal_eval(k.value) for k in call.keywords}
                names = list(globals()[fn].__code__.co_varnames[:globals()[fn].__code__.co_argcount])
                args = args + [kw[n] for n in names[len(args):]]
            except Exception:  # noqa
                args = None
        return "refuted", text, args
    if any("Confirmed over all paths" in ln for ln in lines):
        return "confirmed", text, None
    return "unknown", text, None


def case_crosshair(ctx, fn, timeout_s):
    verdict, text, args = _run_crosshair(fn, timeout_s)
    ctx.set_case(crosshair_fn=fn, crosshair_verdict=verdict, crosshair_output=text[:500], ch_args=args)
    if verdict == "confirmed":
        ctx.check("crosshair:" + fn, True)
    elif verdict == "refuted" and args is not None:
        ctx.check("crosshair:" + fn, False, detail=text[:300])
    else:
        ctx.stats.unknown += 1
        ctx.stats.errors.append("crosshair inconclusive for %s: %s" % (fn, text[:400]))


# ----------------------------------------------------------------------------------------------- driver interface

BODIES = {
    "case_ctor": body_ctor, "case_sub2d": body_sub2d, "case_sub1d": body_sub1d, "case_extract_1d": body_extract_1d,
    "case_extract_2d": body_extract_2d, "case_layout_extracted": body_layout_extracted, "case_rotate_region": body_rotate_region,
    "case_rotate_layout": body_rotate_layout, "case_rotate_perm": body_rotate_perm, "case_rotate_array": body_rotate_array,
    "case_orientation_slim": body_orientation_slim, "case_masked_orientation": body_masked_orientation, "case_extract_array": body_extract_array, "case_layout_1d": body_layout_1d,
}


def cases(tier):
    quick = tier == "quick"
    rot_max, perm_max, ext_max, n1_max, ch_t = (5, 6, 3, 5, 60) if quick else (7, 8, 4, 8, 300)
    out = []
    for fn in CH_FUNCS:
        out.append(("case_crosshair", {"fn": fn, "timeout_s": ch_t}))
    heavy = []
    tri = lambda n: n * (n + 1) // 2

    def split_for(paths):
        return {} if paths < 300 else {"split": 2 if paths < 1200 else (3 if paths < 2500 else 4)}

    for H in range(1, rot_max + 1):
        for W in range(1, rot_max + 1):
            if quick and H * W > 16:
                continue
            n = 4 * tri(H) * tri(W)                       # corners x regions inside the shape = paths of the case
            heavy.append((n, ("case_rotate_array", {"H": H, "W": W}, split_for(n))))
    for H in range(1, ext_max + 1):
        for W in range(1, ext_max + 1):
            n = (tri(H) * tri(W)) ** 2                    # regions x windows
            heavy.append((n, ("case_extract_array", {"H": H, "W": W}, split_for(n))))
    heavy = [c for _, c in sorted(heavy, key=lambda t: -t[0])]
    out += heavy
    out += [("case_ctor", {"dim": 2}), ("case_ctor", {"dim": 1})]
    out += [("case_sub2d", {"method": m}) for m in SUB2D]
    out += [("case_sub1d", {"method": m}) for m in SUB1D]
    out += [("case_extract_1d", {})]
    out += [("case_extract_2d", {"form": f}) for f in ("region", "tuple", "none")]
    out += [("case_layout_extracted", {"slot": s}) for s in SLOTS]
    out += [("case_rotate_region", {}), ("case_rotate_layout", {})]
    for H in range(1, perm_max + 1):
        for W in range(1, perm_max + 1):
            out.append(("case_rotate_perm", {"H": H, "W": W}))
    for (H, W) in ([(1, 1), (2, 3), (3, 2)] if quick else [(1, 1), (1, 4), (2, 3), (3, 2), (4, 4)]):
        out.append(("case_orientation_slim", {"H": H, "W": W}))
    for N in range(1, n1_max + 1):
        masked = N <= (5 if quick else 7)             # every mask with >= 1 unmasked pixel (forked); longer arrays unmasked only
        out.append(("case_layout_1d", {"N": N, "masked": masked}, split_for((2 ** N - 1) * tri(N) if masked else tri(N))))
    # masked Array2D objects with a history: (masks with >=1 masked and >=1 unmasked pixel) x corners x regions
    mo = []
    for H in range(1, 5):
        for W in range(1, 5):
            if H * W >= 2 and (H * W <= (4 if quick else 6) or (quick and (H, W) == (2, 3))):
                n = (2 ** (H * W) - 2) * 4 * tri(H) * tri(W)
                mo.append((n, ("case_masked_orientation", {"H": H, "W": W}, split_for(n))))
    out = [c for _, c in sorted(mo, key=lambda t: -t[0])] + out
    return out


def replay(cand):
    if cand["case_fn"] == "case_crosshair":
        fn = cand["case_kwargs"]["fn"]
        args = cand["case"].get("ch_args")
        if args is None:
            return False, "no counterexample arguments recorded"
        try:
            ok = globals()[fn](*args)
        except Exception as e:  # noqa
            return True, "contract %s%r raised %s: %s on the real code" % (fn, tuple(args), type(e).__name__, e)
        if not ok:
            return True, "contract %s%r is false on the real code" % (fn, tuple(args))
        return False, "contract %s%r holds on the real code" % (fn, tuple(args))
    return hx.replay_body(BODIES[cand["case_fn"]], cand)
