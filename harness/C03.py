"""C03 - masked PSF blurring equals true 2D convolution restricted to the mask."""
import os

import numpy as np
import z3

from symx import hx, values as V
from symx.explore import PathAbort

PROPERTY = "C03"
FUNCTIONS = [
    "autoarray.operators.convolver.Convolver.__init__",
    "autoarray.operators.convolver.Convolver.frame_at_coordinates_jit",
    "autoarray.operators.convolver.Convolver.convolve_image",
    "autoarray.operators.convolver.Convolver.convolve_jit",
    "autoarray.operators.convolver.Convolver.convolve_image_no_blurring",
    "autoarray.operators.convolver.Convolver.convolve_no_blurring_jit",
    "autoarray.operators.convolver.Convolver.convolve_mapping_matrix",
    "autoarray.operators.convolver.Convolver.convolve_matrix_jit",
    "autoarray.mask.mask_2d_util.blurring_mask_2d_from",
    "autoarray.mask.derive.mask_2d.DeriveMask2D.blurring_from",
    "autoarray.structures.arrays.kernel_2d.Kernel2D.convolved_array_from",
    "autoarray.structures.arrays.kernel_2d.Kernel2D.convolved_array_with_mask_from",
    "autoarray.structures.arrays.kernel_2d.Kernel2D.normalized",
    "autoarray.dataset.imaging.simulator.SimulatorImaging.via_image_from",
    "autoarray.dataset.imaging.dataset.Imaging.apply_mask",
    "autoarray.dataset.imaging.dataset.Imaging.convolver",
]
BOUNDS = {
    "quick": "SYMBOLIC (solver variables, signed reals): every kernel entry, every value of the native frame (image, blurring image and "
             "arbitrary values outside both), every mapping-matrix entry (1-2 columns), background sky level.  CONCRETE: an extra integer-dtype (int64) image / blurring image / "
             "frame with values in [-2, 2] per mask (kernel symbolic) for convolve_image, convolve_image_no_blurring and the whole-frame functions.  ENUMERATED: masks by forking over "
             "ALL interior masks (>= 1 unmasked pixel; outer ring of half a kernel masked = footprint inside the frame) of interior 3x3 for kernel "
             "(3,3), 2x3 / 3x2 for (3,5),(5,3),(1,3),(3,1), 2x2 for (1,1); 7 listed larger masks (hole, two components, checkerboard, full 5x5 block, "
             "L-shape) with kernels (3,3),(3,5),(5,3),(5,5),(1,7),(7,1); whole-frame convolution: all masks of 2x3 / 3x2 frames for 12 odd kernel "
             "shapes 1..7 x 1..7 plus 6 unmasked frames up to 5x4 (frames smaller than the kernel included); 11 kernel shapes with an even axis; "
             "simulate->mask->fit: all interior masks 2x3 with a (3,3) PSF and listed masks with (3,5),(5,3),(3,3) PSFs.",
    "thorough": "as quick (same symbolic inputs and obligations), with ALL interior masks (>= 1 unmasked, ring of half a kernel masked) of: interior "
                "3x4 and 4x3 (2 matrix columns) for kernel (3,3); 3x4 for (3,5),(1,3),(1,1); 4x3 for (5,3),(3,1); 3x3 for (3,5),(5,3) "
                "(2 columns),(5,5),(1,5),(5,1),(7,3),(3,7),(7,7),(1,7),(7,1); 2x3 / 3x2 for (5,7),(7,5).  30 listed larger masks: the 5x5 patterns "
                "(hole, two components, checkerboard, full, L-shape) and three 7x7 patterns (annulus with 3x3 hole, five islands, one-pixel spiral) and a "
                "full 5x5 block with kernels up to (7,7),(7,5),(5,7),(1,7),(7,1).  Whole-frame: all masks of 2x3 / 3x2 AND 3x3 frames for all 16 odd "
                "kernel shapes 1..7 x 1..7, unmasked frames up to 9x8 (incl. 2x9, 9x2, 1x9 thinner than the kernel), 11 even shapes.  "
                "simulate->mask->re-mask->fit: all interior masks 3x4 (PSF (3,3), total 1), 3x3 for (3,3) with totals 1, 1/2, -1 (un-normalised) and 2 "
                "(normalised), 3x3 for (3,5) total 1 and (5,3) total 2, 2x3 / 3x2 for (5,5) total 1/2, (1,5) normalised total 1/2, (5,1) total 4, (1,3), "
                "(3,1); listed masks (incl. the 7x7 patterns) with PSFs up to (7,7),(5,7) and totals 1, 2, 1/4, -1/4, -1, -2.",
}
OUTSIDE = [
    "masks whose kernel footprint leaves the frame (Convolver raises MaskException via blurring_mask_2d_from - property C10; Imaging pads instead)",
    "interior regions larger than 12 pixels other than the listed patterns; kernel axes longer than 7; more than 2 mapping-matrix columns",
    "simulation clause: the PSF total is pinned per case to a concrete dyadic value (1, 2, 1/2; thorough also -1, -1/4) with all entries otherwise free, "
    "for normalize_psf=False and True and for Imaging(use_normalized_psf=False).apply_mask - a free total makes the normalisations (simulator, then "
    "Imaging) rational identities that z3 does not decide in 90 s; image values and PSF entries outside [-8, 8] and "
    "background sky below 64*ky*kx + 2^-10: SimulatorImaging draws np.random.poisson even with add_poisson_noise_to_data=False and numpy rejects negative "
    "rates (ValueError), so the expected counts are kept positive by linear preconditions",
    "Poisson / noise-map stages of the simulator (switched off), Kernel2D.rescaled_with_odd_dimensions_from, convolve_image_no_blurring_interpolation",
    "float64 rounding of the accumulation order (sat verdicts are replayed in float64 with tolerance 1e-7)",
]
STUBS = [
    "scipy.signal.convolve2d / correlate2d on symbolic arguments: bilinear map extracted from the REAL scipy routine on basis images x basis kernels for the "
    "call's shapes/mode/boundary (contract: the routine is bilinear in its two array arguments); concrete calls go to scipy unchanged; every path is "
    "cross-validated against the real routine under a solver model",
    "autoarray.dataset.preprocess.data_eps_with_poisson_noise_added on symbolic data: returns its input (contract: with both noise switches off "
    "SimulatorImaging.via_image_from discards this value; the replay runs the real function)",
    "Convolver.convolve_matrix_jit runs through the merge interpreter (if-conversion of its real source) so the value-dependent shortcut `if value ...:` is "
    "one guarded term instead of 2^n forks; harness-side additions to the interpreter: strong update of block-local variables (dead on entry of their "
    "block), algebraic lifting If(g,a+x,a) -> a+If(g,x,0), If(g,u*w,0) -> u*If(g,w,0), and solver-justified removal of guards whose skipped "
    "contribution is provably zero",
]
ASSUMPTIONS = [
    "mask bits explored by forking (one path per mask); all values are solver variables over the reals",
    "reference: out[t] = sum_s K[t - s + half] * c[s] with c = image on unmasked pixels, blurring image on masked pixels inside the footprint of an "
    "unmasked pixel, 0 elsewhere and outside the frame (written independently in the harness)",
]
EXPLORER_OPTS = {"timeout_ms": 20000, "max_paths": 100000, "logic": "QF_NRA"}
BUDGET_S = {"quick": 900, "thorough": 3000}

FINDING_NEG = "matrix-nonpositive-skipped"
FINDING_SIM = "simulated-dataset-psf-renormalised"
FINDING_MASK = "apply-mask-drops-use-normalized-psf"


# ---------------------------------------------------------------------------- engine glue (no edits to symx/*)

_REAL = {}
_BILINEAR_CACHE = {}


def _bilinear_table(fname, shape_a, shape_k, mode, boundary, fillvalue):
    """nonzero coefficients T[(out index)] -> list of ((a index), (k index), coeff) of the REAL scipy routine, extracted on
    basis images x basis kernels (contract: convolve2d is bilinear in its two array arguments)"""
    key = (fname, shape_a, shape_k, mode, boundary, fillvalue)
    hit = _BILINEAR_CACHE.get(key)
    if hit is not None:
        return hit
    real = _REAL[fname]
    table = {}
    out_shape = None
    for ki in np.ndindex(*shape_k):
        ek = np.zeros(shape_k)
        ek[ki] = 1.0
        for ai in np.ndindex(*shape_a):
            ea = np.zeros(shape_a)
            ea[ai] = 1.0
            out = real(ea, ek, mode=mode, boundary=boundary, fillvalue=fillvalue)
            out_shape = out.shape
            for oi in zip(*np.nonzero(out)):
                table.setdefault(tuple(int(o) for o in oi), []).append((ai, ki, float(out[oi])))
    if out_shape is None:
        out_shape = real(np.zeros(shape_a), np.zeros(shape_k), mode=mode, boundary=boundary, fillvalue=fillvalue).shape
    _BILINEAR_CACHE[key] = (out_shape, table)
    return out_shape, table


def _bilinear_stub(fname, in1, in2, mode="full", boundary="fill", fillvalue=0):
    from symx import shim
    a, k = shim.unwrap(in1), shim.unwrap(in2)
    if not (shim.has_sym(a) or shim.has_sym(k)):
        return _REAL[fname](shim.normalise(a), shim.normalise(k), mode=mode, boundary=boundary, fillvalue=fillvalue)
    a, k = np.asarray(a, dtype=object), np.asarray(k, dtype=object)
    out_shape, table = _bilinear_table(fname, tuple(a.shape), tuple(k.shape), mode, boundary, fillvalue)
    out = shim.obj_full(out_shape, np.float64(0.0))
    for oi, terms in table.items():
        acc = np.float64(0.0)
        for ai, ki, c in terms:
            t = a[ai] * k[ki]
            acc = acc + (t if c == 1.0 else t * c)
        out[oi] = acc
    return out


def _poisson_stub_factory(real):
    def stub(data_eps, exposure_time_map, seed=-1):
        from symx import shim
        if shim.has_sym(data_eps) or shim.has_sym(exposure_time_map):
            return data_eps          # noise switched off in this check: the simulator discards this value
        return real(data_eps, exposure_time_map, seed=seed)
    return stub


_BLOCK_LOCAL_CACHE = {}


def _block_local_names(fd):
    """names of a kernel that are dead on entry of the block that assigns them: every store is a plain top-level
    assignment of ONE statement list B and every load sits in a later statement of B (nested arbitrarily).  For such a
    name the predicated store `x = ite(guard, new, old)` may be a strong update `x = new`: whenever a load executes, a
    store of the same block instance has executed before it, so `old` (a left-over of a previous loop iteration) can
    never be observed.  Without this the merge interpreter turns the per-pixel frame tables of convolve_matrix_jit into
    ite-chains over earlier iterations (symbolic indices and trip counts) and the terms explode."""
    import ast
    key = id(fd)
    if key in _BLOCK_LOCAL_CACHE:
        return _BLOCK_LOCAL_CACHE[key]
    stores, loads = {}, {}
    params = {a.arg for a in fd.args.args + fd.args.kwonlyargs + fd.args.posonlyargs}
    if fd.args.vararg:
        params.add(fd.args.vararg.arg)
    if fd.args.kwarg:
        params.add(fd.args.kwarg.arg)
    counter = [0]

    def names_in(node, ctx_type):
        return [n for n in ast.walk(node) if isinstance(n, ast.Name) and isinstance(n.ctx, ctx_type)]

    def visit_block(stmts, chain):
        counter[0] += 1
        bid = counter[0]
        for idx, st in enumerate(stmts):
            here = chain + [(bid, idx)]
            if isinstance(st, ast.Assign):
                for n in names_in(st.value, ast.Load):
                    loads.setdefault(n.id, []).append(here)
                for t in st.targets:
                    if isinstance(t, ast.Name):
                        stores.setdefault(t.id, []).append(("assign", bid, idx))
                    else:
                        for n in names_in(t, ast.Store):
                            stores.setdefault(n.id, []).append(("other", bid, idx))
                        for n in names_in(t, ast.Load):
                            loads.setdefault(n.id, []).append(here)
            elif isinstance(st, (ast.If, ast.For, ast.While)):
                own = [st.test] if isinstance(st, (ast.If, ast.While)) else [st.iter]
                for e in own:
                    for n in names_in(e, ast.Load):
                        loads.setdefault(n.id, []).append(here)
                if isinstance(st, ast.For):
                    for n in names_in(st.target, ast.Store):
                        stores.setdefault(n.id, []).append(("for", bid, idx))
                visit_block(st.body, here)
                if st.orelse:
                    visit_block(st.orelse, here)
            else:
                for n in names_in(st, ast.Load):
                    loads.setdefault(n.id, []).append(here)
                for n in names_in(st, ast.Store):
                    stores.setdefault(n.id, []).append(("other", bid, idx))
                for sub in ast.walk(st):
                    if sub is not st and isinstance(sub, (ast.stmt,)) and not isinstance(st, (ast.Expr, ast.Return, ast.AugAssign, ast.Raise, ast.Pass, ast.Break, ast.Continue, ast.AnnAssign)):
                        stores.setdefault("*", []).append(("other", bid, idx))     # unknown compound statement: give up

    visit_block(fd.body, [])
    out = set()
    if "*" not in stores:
        for name, sts in stores.items():
            if name in params or any(k != "assign" for (k, _, _) in sts):
                continue
            blocks = {b for (_, b, _) in sts}
            if len(blocks) != 1:
                continue
            b = blocks.pop()
            i0 = min(i for (_, _, i) in sts)
            if all(any(bb == b and j > i0 for (bb, j) in chain) for chain in loads.get(name, [])):
                out.add(name)
    _BLOCK_LOCAL_CACHE[key] = out
    return out


def _patch_merge_assign():
    import ast
    from symx import merge
    if getattr(merge.Interp.assign, "_c03_patched", False):
        return
    orig = merge.Interp.assign

    def assign(self, target, v, g):
        if isinstance(target, ast.Name) and not z3.is_true(g):
            fr = self.frames[-1]
            if target.id in fr.env and target.id in _block_local_names(self.get_ast(fr.func)):
                fr.env[target.id] = v
                return
        return orig(self, target, v, g)

    assign._c03_patched = True
    merge.Interp.assign = assign


def POST_INSTALL():
    _patch_merge_assign()
    import scipy.signal
    from symx import merge
    from autoarray.operators.convolver import Convolver
    from autoarray.dataset import preprocess
    import functools
    for fname in ("convolve2d", "correlate2d"):
        if fname not in _REAL:
            _REAL[fname] = getattr(scipy.signal, fname)
            setattr(scipy.signal, fname, functools.partial(_bilinear_stub, fname))
    f = Convolver.__dict__["convolve_matrix_jit"]
    f = getattr(f, "__func__", f)
    if not hasattr(f, "__wrapped_kernel__"):
        Convolver.convolve_matrix_jit = staticmethod(merge._make_dispatcher(f))
    if not getattr(preprocess.data_eps_with_poisson_noise_added, "_c03_stub", False):
        st = _poisson_stub_factory(preprocess.data_eps_with_poisson_noise_added)
        st._c03_stub = True
        preprocess.data_eps_with_poisson_noise_added = st


def _stop_when_enough(ctx):
    """once a case holds max_candidates counterexample candidates, further paths add nothing (exit is 1 anyway)"""
    fresh = sum(1 for c in ctx.stats.candidates if c.known is None)
    if fresh >= ctx.max_candidates or (fresh >= 1 and ctx.stats.sat >= 2 * ctx.max_candidates):
        for e in ctx.stack:
            e[1] = False
        raise PathAbort()


_VARS_CACHE = {}      # AST id -> (term, set of variable ids); the term is kept alive so that its id cannot be recycled


def _vars(t):
    key = t.get_id()
    hit = _VARS_CACHE.get(key)
    if hit is not None:
        return hit[1]
    out, todo, seen = set(), [t], set()
    while todo:
        x = todo.pop()
        if x.get_id() in seen:
            continue
        seen.add(x.get_id())
        if z3.is_const(x):
            if x.decl().kind() == z3.Z3_OP_UNINTERPRETED:
                out.add(x.get_id())
        else:
            todo.extend(x.children())
    if len(_VARS_CACHE) > 50000:
        _VARS_CACHE.clear()
    _VARS_CACHE[key] = (t, out)
    return out


def _mul_args(t):
    if z3.is_mul(t):
        out = []
        for i in range(t.num_args()):
            out.extend(_mul_args(t.arg(i)))
        return out
    return [t]


def _guarded(g, x):
    """If(g, x, 0) with the factors of x that do not share a variable with g pulled out:  If(g, u*w, 0) = u * If(g, w, 0)"""
    gv = _vars(g)
    outer, inner = [], []
    for f in _mul_args(x):
        (inner if (_vars(f) & gv) else outer).append(f)
    if not inner or not outer:
        return z3.If(g, x, z3.RealVal(0))
    w = inner[0] if len(inner) == 1 else z3.Product(inner)
    u = outer[0] if len(outer) == 1 else z3.Product(outer)
    return u * z3.If(g, w, z3.RealVal(0))


def _is_zero(t):
    return z3.is_rational_value(t) and t.numerator_as_long() == 0


def _lift_term(t, memo):
    """equivalence-preserving normal form for guarded accumulation (pure algebra, valid for all values):
         If(g, a + x, a)  ->  a + If(g, x, 0)          If(g, u*w, 0)  ->  u * If(g, w, 0)   (u shares no variable with g)
    The merge interpreter turns `if c: acc += x` into nested ites; as a flat sum of guarded products the obligation is
    orders of magnitude easier for nlsat.  Every other term is left untouched."""
    key = t.get_id()
    hit = memo.get(key)
    if hit is not None:
        return hit[1]
    out = t
    if z3.is_app_of(t, z3.Z3_OP_ITE) and z3.is_real(t):
        g, a, e = t.arg(0), t.arg(1), t.arg(2)
        if _is_zero(e):
            out = _guarded(g, a)
        elif z3.is_add(a):
            args = [a.arg(i) for i in range(a.num_args())]
            hitpos = [i for i, x in enumerate(args) if x.eq(e)]
            if hitpos:
                rest = [x for i, x in enumerate(args) if i != hitpos[0]]
                extra = rest[0] if len(rest) == 1 else z3.Sum(rest)
                out = _lift_term(e, memo) + _guarded(g, extra)
    memo[key] = (t, out)          # keeps t alive: AST ids are only unique among live terms
    return out


def _resolve_term(ctx, t, gamma, leaf_memo, memo=None):
    """replace every  If(g, w, 0)  inside t by  w  when the solver proves  path condition & gamma & not g  =>  w = 0
    (e.g. `if value != 0: acc += value * k`: skipping a zero contribution changes nothing).  Each replacement is justified
    by its own unsat verdict, so the result is equivalent to t under the path condition and gamma."""
    if memo is None:
        memo = {}
    key = t.get_id()
    hit = memo.get(key)
    if hit is not None:
        return hit[1]
    out = t
    if z3.is_app_of(t, z3.Z3_OP_ITE) and z3.is_real(t) and _is_zero(t.arg(2)):
        g, w = t.arg(0), t.arg(1)
        tv = _vars(t)
        rel = [c for c in gamma if _vars(c) <= tv]          # a subset of gamma suffices (and makes the verdict reusable)
        lkey = (key,) + tuple(sorted(c.get_id() for c in rel))
        hit = leaf_memo.get(lkey)
        out = hit[2] if hit is not None else None
        if out is None:
            out = t
            import time
            for budget in (5000, 30000):
                s = z3.SolverFor("QF_NRA")
                s.set("timeout", budget)
                s.add(*ctx.constraints)
                s.add(*rel)
                s.add(z3.Not(g), w != 0)
                t0 = time.time()
                r = str(s.check())
                ctx.stats.queries += 1
                ctx.stats.solver_time += time.time() - t0
                if r != "unknown":
                    break
            if r == "unsat":
                out = w
            leaf_memo[lkey] = (t, rel, out)
    elif not z3.is_const(t) and z3.is_app(t) and z3.is_real(t):
        kids = t.children()
        new = [_resolve_term(ctx, k, gamma, leaf_memo, memo) if z3.is_real(k) else k for k in kids]
        if any(not a.eq(b) for a, b in zip(new, kids)):
            if z3.is_add(t):
                out = z3.Sum(new)
            elif z3.is_mul(t):
                out = z3.Product(new)
            elif t.decl().arity() == len(new):
                out = t.decl()(*new)
    memo[key] = (t, out)
    return out


def _lift(x):
    from symx.values import SymReal
    memo = {}
    if isinstance(x, SymReal):
        return SymReal(_lift_term(x.t, memo))
    if isinstance(x, np.ndarray) and x.dtype == object:
        out = np.empty(x.shape, dtype=object)
        fo, fx = out.reshape(-1), x.reshape(-1)
        for i in range(fx.shape[0]):
            fo[i] = SymReal(_lift_term(fx[i].t, memo)) if isinstance(fx[i], SymReal) else fx[i]
        return out
    return x


def _known_ids():
    return set(x for x in os.environ.get("VERIF_KNOWN", "").split(",") if x)


# ---------------------------------------------------------------------------- independent reference

def ref_positions(mask):
    return [(y, x) for y in range(mask.shape[0]) for x in range(mask.shape[1]) if not mask[y, x]]


def ref_blurring_positions(mask, ky, kx):
    """masked pixels that lie inside the kernel footprint of some unmasked pixel (row-major order)"""
    H, W = mask.shape
    hy, hx_ = ky // 2, kx // 2
    out = []
    for y in range(H):
        for x in range(W):
            if mask[y, x] and any(not mask[yy, xx] for yy in range(max(0, y - hy), min(H, y + hy + 1))
                                  for xx in range(max(0, x - hx_), min(W, x + hx_ + 1))):
                out.append((y, x))
    return out


def ref_conv_at(values, support, K, t):
    """sum_s K[t - s + half] * values[s] over the pixels s of `support` (true convolution: flipped, centred kernel)"""
    ky, kx = K.shape
    hy, hx_ = ky // 2, kx // 2
    acc = 0.0
    for s in support:
        i, j = t[0] - s[0] + hy, t[1] - s[1] + hx_
        if 0 <= i < ky and 0 <= j < kx:
            acc = acc + K[i, j] * values[s]
    return acc


def footprint_inside(mask, ky, kx):
    H, W = mask.shape
    hy, hx_ = ky // 2, kx // 2
    return all(hy <= y < H - hy and hx_ <= x < W - hx_ for (y, x) in ref_positions(mask))


def int_frame(H, W, n):
    """a concrete frame of small signed integers (int64), varied with the number of unmasked pixels of the path"""
    return np.array([[((2 * y + 3 * x + n) % 5) - 2 for x in range(W)] for y in range(H)], dtype="int64")


def _vec(xs):
    a = np.empty(len(xs), dtype=object)
    for i, x in enumerate(xs):
        a[i] = x
    return a


def _slim(o):
    return o if isinstance(o, hx.Raised) else hx.attempt(lambda: o.slim.array)


# ---------------------------------------------------------------------------- case 1: the Convolver

def body_convolver(inp, H, W, ky, kx, ncols):
    import autoarray as aa
    from symx import merge
    mask = np.array(inp["mask"], dtype=bool).reshape(H, W)
    v = np.asarray(inp["v"]).reshape(H, W)
    K = np.asarray(inp["K"]).reshape(ky, kx)
    pos = ref_positions(mask)
    n = len(pos)
    B = np.asarray(inp["B"]).reshape(-1, ncols)[:n]
    blur = ref_blurring_positions(mask, ky, kx)
    A, E = {}, {}
    m = aa.Mask2D(mask=mask.copy(), pixel_scales=1.0)
    kernel = aa.Kernel2D.no_mask(values=K.copy(), pixel_scales=1.0)
    conv = hx.attempt(lambda: aa.Convolver(mask=m, kernel=kernel))
    if isinstance(conv, hx.Raised):
        return {"convolver_constructed": conv}, {"convolver_constructed": "no exception"}
    bm = hx.attempt(lambda: m.derive_mask.blurring_from(kernel_shape_native=(ky, kx)))
    if isinstance(bm, hx.Raised):
        return {"blurring_mask": bm}, {"blurring_mask": "no exception"}
    image = aa.Array2D(values=v.copy(), mask=m)
    # the frame `v` carries arbitrary values everywhere: whatever lies outside mask + blurring region must not matter
    A["convolve_image"] = _slim(hx.attempt(lambda: conv.convolve_image(image=image, blurring_image=aa.Array2D(values=v.copy(), mask=bm))))
    E["convolve_image"] = _vec([ref_conv_at(v, pos + blur, K, t) for t in pos])
    A["convolve_image_no_blurring"] = _slim(hx.attempt(lambda: conv.convolve_image_no_blurring(image=image)))
    E["convolve_image_no_blurring"] = _vec([ref_conv_at(v, pos, K, t) for t in pos])
    # whole-frame convolution of the full frame (values outside the region included) agrees where both are defined
    wf = _slim(hx.attempt(lambda: kernel.convolved_array_with_mask_from(array=v.copy(), mask=m)))
    A["whole_frame_agrees_with_convolver"] = wf
    E["whole_frame_agrees_with_convolver"] = A["convolve_image"]
    # integer-dtype images (slim int64 values stay int64 inside Array2D): same operator, nothing may be truncated
    vi = int_frame(H, W, n)
    img_i = hx.attempt(lambda: aa.Array2D(values=np.array([vi[p] for p in pos], dtype="int64"), mask=m))
    blr_i = hx.attempt(lambda: aa.Array2D(values=np.array([vi[p] for p in blur], dtype="int64"), mask=bm))
    A["convolve_image_no_blurring(int image)"] = _slim(hx.attempt(lambda: conv.convolve_image_no_blurring(image=img_i)))
    E["convolve_image_no_blurring(int image)"] = _vec([ref_conv_at(vi, pos, K, t) for t in pos])
    A["convolve_image(int images)"] = _slim(hx.attempt(lambda: conv.convolve_image(image=img_i, blurring_image=blr_i)))
    E["convolve_image(int images)"] = _vec([ref_conv_at(vi, pos + blur, K, t) for t in pos])
    A["convolved_array_with_mask_from(int frame)"] = _slim(hx.attempt(lambda: kernel.convolved_array_with_mask_from(array=vi.copy(), mask=m)))
    E["convolved_array_with_mask_from(int frame)"] = _vec([ref_conv_at(vi, [(y, x) for y in range(H) for x in range(W)], K, t) for t in pos])
    with merge.merging():
        bmm = hx.attempt(lambda: conv.convolve_mapping_matrix(mapping_matrix=B.copy()))
    for c in range(ncols):
        col = {p: B[k, c] for k, p in enumerate(pos)}
        for k, t in enumerate(pos):
            A["mapping_matrix_col_%d_px_%d" % (c, k)] = bmm if isinstance(bmm, hx.Raised) else _lift(np.asarray(bmm)[k, c])
            E["mapping_matrix_col_%d_px_%d" % (c, k)] = ref_conv_at(col, pos, K, t)
    return A, E


def _interior_mask(ctx, H, W, ky, kx):
    """fork over every mask whose unmasked pixels keep the kernel footprint inside the frame (>= 1 unmasked)"""
    hy, hx_ = ky // 2, kx // 2
    bits = V.bool_array("m", (H - 2 * hy, W - 2 * hx_))
    ctx.assume(z3.Or(*[z3.Not(b.t) for b in bits.reshape(-1)]))
    inner = ctx.concrete_bools(bits)
    mask = np.full((H, W), True)
    mask[hy:H - hy, hx_:W - hx_] = inner
    return mask


def case_convolver(ctx, H, W, ky, kx, ncols, masks=None, pattern=None):
    _stop_when_enough(ctx)
    if masks is None:
        mask = _interior_mask(ctx, H, W, ky, kx)
    else:
        mask = np.array(masks, dtype=bool)
    ctx.set_case(mask=mask.tolist())
    pos = ref_positions(mask)
    n = len(pos)
    B = V.real_array("B", (n, ncols))
    inputs = {"mask": mask, "v": V.real_array("v", (H, W)), "K": V.real_array("K", (ky, kx)), "B": B}
    kw = {"H": H, "W": W, "ky": ky, "kx": kx, "ncols": ncols}
    mm = lambda k: k.startswith("mapping_matrix_")
    ctx.set_inputs(**inputs)
    actual, expected = body_convolver(inputs, **kw)
    hx.check_all(ctx, actual, expected, only=[k for k in expected if not mm(k)])
    # mapping-matrix entries: one obligation per (column, image pixel).  The value-dependent shortcut of convolve_matrix_jit
    # (`if value ...:`) arrives here as a sum of guarded products; guards whose skipped contribution is provably zero
    # are discharged one by one (see _resolve_term) so that the remaining identity is polynomial.
    active = FINDING_NEG in _known_ids()
    memo_free, memo_out = {}, {}
    for key in [k for k in expected if mm(k)]:
        a, e = actual[key], expected[key]
        if isinstance(a, hx.Raised) or not V.is_sym(a):
            ctx.check(key, hx.eq_terms(a, e))
            continue
        c, k = int(key.split("_")[3]), int(key.split("_")[5])
        t = pos[k]
        src = [i for i, p in enumerate(pos) if abs(p[0] - t[0]) <= ky // 2 and abs(p[1] - t[1]) <= kx // 2]
        et = V.to_real_term(e)
        if active:
            region = z3.Or(*[B[i, c].t < 0 for i in src])       # some entry that blurs into this pixel is negative
            outside = [z3.Not(x) for x in ([B[i, c].t < 0 for i in src])]
            a_out = _resolve_term(ctx, a.t, outside, memo_out)
            ctx.check(key, z3.Or(region, a_out == et))                                    # outside the region: must hold
            # inside the region: the recorded finding.  The witness is searched in a slice of the region (the pixel's own entry
            # negative, the other contributing entries zero) - a model search over the whole region is erratic for > 12 sources.
            witness = z3.And(B[k, c].t < 0, *[B[i, c].t == 0 for i in src if i != k])
            a_in = _resolve_term(ctx, a.t, [], memo_free)
            zeros = [(B[i, c].t, z3.RealVal(0)) for i in src if i != k]
            ob_w = z3.simplify(z3.substitute(a_in == et, *zeros)) if zeros else (a_in == et)     # equivalent under `witness`
            ctx.check(key, z3.Or(z3.Not(witness), ob_w), known={FINDING_NEG: witness})
        else:
            ctx.check(key, _resolve_term(ctx, a.t, [], memo_free) == et)
    hx.validate(ctx, body_convolver, inputs, kw, actual, every=32)


# ---------------------------------------------------------------------------- case 2: whole-frame convolution (simulator's operator)

def body_whole_frame(inp, H, W, ky, kx):
    import autoarray as aa
    mask = np.array(inp["mask"], dtype=bool).reshape(H, W)
    v = np.asarray(inp["v"]).reshape(H, W)
    K = np.asarray(inp["K"]).reshape(ky, kx)
    pos = ref_positions(mask)
    every = [(y, x) for y in range(H) for x in range(W)]
    A, E = {}, {}
    m = aa.Mask2D(mask=mask.copy(), pixel_scales=1.0)
    kernel = aa.Kernel2D.no_mask(values=K.copy(), pixel_scales=1.0)
    full = hx.attempt(lambda: kernel.convolved_array_from(array=aa.Array2D.no_mask(values=v.copy(), pixel_scales=1.0)))
    masked_in = hx.attempt(lambda: kernel.convolved_array_from(array=aa.Array2D(values=v.copy(), mask=m)))
    with_mask = hx.attempt(lambda: kernel.convolved_array_with_mask_from(array=v.copy(), mask=m))
    if ky % 2 == 0 or kx % 2 == 0:
        rej = hx.Raised("KernelException")
        A["even_kernel_rejected.convolved_array_from"], E["even_kernel_rejected.convolved_array_from"] = full, rej
        A["even_kernel_rejected.convolved_array_with_mask_from"], E["even_kernel_rejected.convolved_array_with_mask_from"] = with_mask, rej
        A["even_kernel_rejected.Convolver"] = hx.attempt(lambda: aa.Convolver(mask=m, kernel=kernel))
        E["even_kernel_rejected.Convolver"] = rej
        return A, E
    # zero outside the frame, flipped + centred kernel, at EVERY pixel of the frame
    A["convolved_array_from"] = full if isinstance(full, hx.Raised) else hx.attempt(lambda: full.native.array)
    E["convolved_array_from"] = np.array([ref_conv_at(v, every, K, t) for t in every], dtype=object).reshape(H, W)
    # a masked input array is zero-filled before the convolution and the result is trimmed to the mask
    A["convolved_array_from(masked array)"] = _slim(masked_in)
    E["convolved_array_from(masked array)"] = _vec([ref_conv_at(v, pos, K, t) for t in pos])
    vi = int_frame(H, W, len(pos))
    A["convolved_array_from(int array)"] = _slim(hx.attempt(lambda: kernel.convolved_array_from(array=aa.Array2D(values=np.array([vi[p] for p in pos], dtype="int64"), mask=m))))
    E["convolved_array_from(int array)"] = _vec([ref_conv_at(vi, pos, K, t) for t in pos])
    A["convolved_array_with_mask_from"] = _slim(with_mask)
    E["convolved_array_with_mask_from"] = _vec([ref_conv_at(v, every, K, t) for t in pos])
    return A, E


def case_whole_frame(ctx, H, W, ky, kx, masks=None, pattern=None):
    _stop_when_enough(ctx)
    if masks is None:
        bits = V.bool_array("m", (H, W))
        ctx.assume(z3.Or(*[z3.Not(b.t) for b in bits.reshape(-1)]))
        mask = ctx.concrete_bools(bits)
    else:
        mask = np.array(masks, dtype=bool)
    ctx.set_case(mask=mask.tolist())
    inputs = {"mask": mask, "v": V.real_array("v", (H, W)), "K": V.real_array("K", (ky, kx))}
    hx.run_body(ctx, body_whole_frame, inputs, {"H": H, "W": W, "ky": ky, "kx": kx}, validate_every=16)


# ---------------------------------------------------------------------------- case 3: simulate (noise off) -> mask -> fit with the generating image

EXPOSURE = 256.0
SIM_BOX = 8.0


def remask_partner(mask, ky, kx):
    """a first mask A for the masking history A -> B (B = `mask`): B's unmasked pixels without the last one, plus the first
    interior pixel that B masks - so B has a pixel outside A and A one outside B whenever the interior allows it"""
    H, W = mask.shape
    hy, hx_ = ky // 2, kx // 2
    pos = ref_positions(mask)
    interior = [(y, x) for y in range(hy, H - hy) for x in range(hx_, W - hx_)]
    keep = set(pos[:-1])
    extra = [p for p in interior if mask[p]]
    if extra:
        keep.add(extra[0])
    if not keep:
        keep = set(pos)               # single-pixel interior: A = B
    first = np.full((H, W), True)
    for p in keep:
        first[p] = False
    return first


def body_simulate(inp, H, W, ky, kx, normalize, total=None):
    import autoarray as aa
    mask = np.array(inp["mask"], dtype=bool).reshape(H, W)
    v = np.asarray(inp["v"]).reshape(H, W)
    K = np.asarray(inp["K"]).reshape(ky, kx)
    bg = inp["bg"][0]
    pos = ref_positions(mask)
    every = [(y, x) for y in range(H) for x in range(W)]
    A, E = {}, {}
    m = aa.Mask2D(mask=mask.copy(), pixel_scales=1.0)
    psf = aa.Kernel2D.no_mask(values=K.copy(), pixel_scales=1.0)

    def simulate():
        sim = aa.SimulatorImaging(exposure_time=EXPOSURE, background_sky_level=bg, psf=psf, normalize_psf=normalize,
                                  add_poisson_noise_to_data=False, include_poisson_noise_in_noise_map=False,
                                  noise_if_add_noise_false=0.25, noise_seed=1)
        return sim.via_image_from(image=aa.Array2D.no_mask(values=v.copy(), pixel_scales=1.0))

    ds = hx.attempt(simulate)
    if isinstance(ds, hx.Raised):
        return {"simulated": "%r %s" % (ds, ds.msg)}, {"simulated": "no exception"}
    Kn = K
    if normalize:
        # C03 states that data and dataset PSF are consistent, not HOW normalize_psf=True rescales the kernel: the reference
        # convolves with the kernel the returned dataset reports (the reference convolution itself stays independent)
        Kn = np.asarray(hx.unwrap(ds.psf.native)).reshape(ky, kx)
    A["simulated_data"] = hx.attempt(lambda: ds.data.native.array)
    E["simulated_data"] = np.array([ref_conv_at(v, every, Kn, t) for t in every], dtype=object).reshape(H, W)

    def fit():
        masked = ds.apply_mask(mask=m)
        conv = masked.convolver
        bm = m.derive_mask.blurring_from(kernel_shape_native=(ky, kx))
        model = conv.convolve_image(image=aa.Array2D(values=v.copy(), mask=m), blurring_image=aa.Array2D(values=v.copy(), mask=bm))
        return masked.data.slim.array - model.slim.array

    A["residual_of_generating_image"] = hx.attempt(fit)
    E["residual_of_generating_image"] = np.zeros(len(pos))
    # derived datasets keep the PSF that produced the data: the same fit through apply_mask(...).apply_over_sampling(...)
    def fit_derived():
        from autoarray.dataset.over_sampling import OverSamplingDataset
        derived = ds.apply_mask(mask=m).apply_over_sampling(over_sampling=OverSamplingDataset())
        bm = m.derive_mask.blurring_from(kernel_shape_native=(ky, kx))
        model = derived.convolver.convolve_image(image=aa.Array2D(values=v.copy(), mask=m), blurring_image=aa.Array2D(values=v.copy(), mask=bm))
        return derived.data.slim.array - model.slim.array

    A["residual_in_derived_dataset(apply_over_sampling)"] = hx.attempt(fit_derived)
    E["residual_in_derived_dataset(apply_over_sampling)"] = np.zeros(len(pos))
    # masking history: mask with A first, then re-mask the MASKED dataset with the mask under test (B has pixels outside A):
    # the data of the re-masked dataset must again be the simulated image on B, i.e. zero residual on B
    first_mask = remask_partner(mask, ky, kx)

    def fit_remasked():
        once = ds.apply_mask(mask=aa.Mask2D(mask=first_mask.copy(), pixel_scales=1.0))
        twice = once.apply_mask(mask=m)
        bm = m.derive_mask.blurring_from(kernel_shape_native=(ky, kx))
        model = twice.convolver.convolve_image(image=aa.Array2D(values=v.copy(), mask=m), blurring_image=aa.Array2D(values=v.copy(), mask=bm))
        return twice.data.slim.array - model.slim.array

    A["residual_after_remasking"] = hx.attempt(fit_remasked)
    E["residual_after_remasking"] = np.zeros(len(pos))
    if not normalize:
        # the same data in a dataset that was told NOT to normalise its PSF: masking must keep that PSF
        def fit_raw():
            ds2 = aa.Imaging(data=ds.data, noise_map=ds.noise_map, psf=psf, use_normalized_psf=False, check_noise_map=False)
            masked = ds2.apply_mask(mask=m)
            bm = m.derive_mask.blurring_from(kernel_shape_native=(ky, kx))
            model = masked.convolver.convolve_image(image=aa.Array2D(values=v.copy(), mask=m), blurring_image=aa.Array2D(values=v.copy(), mask=bm))
            return masked.data.slim.array - model.slim.array

        A["residual_in_unnormalized_dataset_after_apply_mask"] = hx.attempt(fit_raw)
        E["residual_in_unnormalized_dataset_after_apply_mask"] = np.zeros(len(pos))
    return A, E


def case_simulate(ctx, H, W, ky, kx, normalize, masks=None, pattern=None, total=None):
    _stop_when_enough(ctx)
    mask = _interior_mask(ctx, H, W, ky, kx) if masks is None else np.array(masks, dtype=bool)
    ctx.set_case(mask=mask.tolist())
    v, K, bg = V.real_array("v", (H, W)), V.real_array("K", (ky, kx)), V.real("bg")
    tot = z3.Sum([e.t for e in K.reshape(-1)])
    # the PSF total is pinned to a concrete dyadic value (all entries otherwise free): a free total turns the normalisations
    # (simulator, Imaging) into rational identities that z3 does not decide in 90 s
    if total is None:
        total = 2.0 if normalize else 1.0
    ctx.assume(tot == V.rval(total))
    # SimulatorImaging draws the Poisson realisation even when it is switched off and numpy rejects negative expected counts
    # (ValueError): keep convolved image + background positive.  Stated through LINEAR constraints (a box for the values and a
    # background above the worst case) - the bilinear form `conv(v, K)[t] + bg >= 0` for every t costs 14 s per model search.
    box = z3.And(*[z3.And(e.t >= -SIM_BOX, e.t <= SIM_BOX) for e in list(v.reshape(-1)) + list(K.reshape(-1))])
    ctx.assume(box)
    ctx.assume(bg.t >= V.rval(SIM_BOX * SIM_BOX * ky * kx + 2.0 ** -10))
    inputs = {"mask": mask, "v": v, "K": K, "bg": [bg]}
    known = {}
    region = tot != 1          # normalize_psf=False / use_normalized_psf=False with a PSF whose entries do not sum to 1
    if not normalize:
        if FINDING_SIM in _known_ids():
            known["residual_of_generating_image"] = {FINDING_SIM: region}
        if FINDING_MASK in _known_ids():
            known["residual_in_unnormalized_dataset_after_apply_mask"] = {FINDING_MASK: region}
    hx.run_body(ctx, body_simulate, inputs, {"H": H, "W": W, "ky": ky, "kx": kx, "normalize": normalize, "total": total}, validate_every=8, known=known)


BODIES = {"case_convolver": body_convolver, "case_whole_frame": body_whole_frame, "case_simulate": body_simulate}

# interior patterns (1 = masked) for frames too large to enumerate: hole, two components, checkerboard, full block
PATTERNS = {
    "hole": ["00001", "01001", "00011", "10000", "11000"],
    "two": ["00111", "00111", "11111", "11100", "11101"],
    "checker": ["01010", "10101", "01010", "10101", "01010"],
    "full": ["00000", "00000", "00000", "00000", "00000"],
    "lshape": ["0111", "0111", "0000"],
    # 7x7 interiors (thorough tier): annulus with a 3x3 hole, five separate islands, a one-pixel-wide spiral
    "ring7": ["1000001", "0000000", "0011100", "0011100", "0011100", "0000000", "1000001"],
    "islands7": ["0011100", "0011101", "1111111", "0111011", "0111011", "1111111", "0010011"],
    "spiral7": ["0000000", "1111110", "0000010", "0111010", "0100010", "0111110", "0000000"],
}


def pattern_mask(name, ky, kx):
    rows = PATTERNS[name]
    hy, hx_ = ky // 2, kx // 2
    H, W = len(rows) + 2 * hy, len(rows[0]) + 2 * hx_
    mask = np.full((H, W), True)
    for y, r in enumerate(rows):
        for x, ch in enumerate(r):
            mask[hy + y, hx_ + x] = ch == "1"
    return H, W, mask.tolist()


def cases(tier):
    quick = tier == "quick"
    out = []
    # (a) Convolver on every interior mask (outer ring of half a kernel masked)
    plan = [((3, 3), (3, 3), 2, 5), ((3, 5), (2, 3), 1, 1), ((5, 3), (3, 2), 1, 1), ((1, 3), (2, 3), 1, 1), ((3, 1), (3, 2), 1, 1), ((1, 1), (2, 2), 1, 0)]
    if not quick:
        plan = [((3, 3), (3, 4), 2, 7), ((3, 3), (4, 3), 2, 7), 
                ((3, 5), (3, 4), 1, 7), ((5, 3), (4, 3), 1, 7), ((3, 5), (3, 3), 2, 4), ((5, 3), (3, 3), 2, 4), ((5, 5), (3, 3), 1, 4),
                ((1, 3), (3, 4), 1, 6), ((3, 1), (4, 3), 1, 6), ((1, 1), (3, 4), 1, 6),
                ((1, 5), (3, 3), 1, 4), ((5, 1), (3, 3), 1, 4), ((7, 3), (3, 3), 1, 4), ((3, 7), (3, 3), 1, 4), ((7, 7), (3, 3), 1, 4),
                ((1, 7), (3, 3), 1, 4), ((7, 1), (3, 3), 1, 4), ((5, 7), (2, 3), 1, 2), ((7, 5), (3, 2), 1, 2)]
    for (ky, kx), (ih, iw), ncols, split in plan:
        out.append(("case_convolver", {"H": ih + 2 * (ky // 2), "W": iw + 2 * (kx // 2), "ky": ky, "kx": kx, "ncols": ncols}, {"split": split}))
    # (b) Convolver on listed larger masks (holes, several components)
    listed = [("hole", (3, 3)), ("two", (3, 3)), ("checker", (3, 5)), ("full", (5, 3)), ("lshape", (5, 5)), ("hole", (1, 7)), ("two", (7, 1))]
    if not quick:
        listed += [("hole", (5, 5)), ("two", (5, 5)), ("checker", (5, 5)), ("full", (3, 3)), ("hole", (3, 5)), ("two", (5, 3)), ("lshape", (7, 7)),
                   ("checker", (7, 3)), ("hole", (3, 7)), ("two", (7, 5)), ("lshape", (5, 7)),
                   ("ring7", (3, 3)), ("ring7", (5, 5)), ("ring7", (7, 7)), ("islands7", (3, 3)), ("islands7", (3, 5)), ("islands7", (5, 3)),
                   ("islands7", (7, 7)), ("spiral7", (3, 3)), ("spiral7", (5, 5)), ("spiral7", (1, 7)), ("spiral7", (7, 1)), ("full", (7, 7))]
    for name, (ky, kx) in listed:
        H, W, mk = pattern_mask(name, ky, kx)
        out.append(("case_convolver", {"H": H, "W": W, "ky": ky, "kx": kx, "ncols": 1, "masks": mk, "pattern": name}))
    # (c) whole-frame convolution: every odd kernel shape 1..7 x 1..7 on an unmasked-or-masked small frame, even shapes rejected
    odd = [1, 3, 5, 7]
    for ky in odd:
        for kx in odd:
            if quick and (ky == 7 or kx == 7) and (ky, kx) not in ((7, 7), (1, 7), (7, 3)):
                continue
            H, W = (2, 3) if (ky + kx) % 4 == 0 else (3, 2)
            out.append(("case_whole_frame", {"H": H, "W": W, "ky": ky, "kx": kx}))
            if not quick:
                out.append(("case_whole_frame", {"H": 3, "W": 3, "ky": ky, "kx": kx}, {"split": 3}))
    for (H, W, ky, kx) in [(4, 5, 3, 3), (5, 4, 3, 5), (4, 4, 5, 3), (1, 1, 3, 3), (1, 4, 3, 3), (3, 1, 1, 3)] + ([] if quick else [(6, 7, 5, 5), (5, 6, 7, 7), (7, 5, 1, 7), (6, 6, 7, 1), (8, 9, 3, 3), (9, 8, 5, 7), (8, 8, 7, 5), (2, 9, 7, 7), (9, 2, 3, 5), (1, 9, 1, 7)]):
        out.append(("case_whole_frame", {"H": H, "W": W, "ky": ky, "kx": kx, "masks": np.zeros((H, W), dtype=bool).tolist()}))
    for (ky, kx) in [(2, 2), (2, 3), (3, 2), (1, 2), (2, 1), (4, 3), (3, 4), (4, 4), (6, 5), (5, 6), (2, 7)]:
        H, W, mk = pattern_mask("lshape", ky + 1 - ky % 2, kx + 1 - kx % 2)
        out.append(("case_whole_frame", {"H": H, "W": W, "ky": ky, "kx": kx, "masks": mk}))
    # (d) noise-free simulation fitted by its generating image
    # (kernel shape, interior to fork over | None, normalize_psf, listed pattern | None, pinned PSF total)
    sims = [((3, 3), (2, 3), False, None, 1.0), ((3, 5), None, False, "lshape", 1.0), ((5, 3), None, False, "hole", 1.0), ((3, 3), None, True, "lshape", 2.0),
            ((3, 3), (2, 3), False, None, 2.0), ((3, 5), None, False, "lshape", 0.5), ((5, 3), None, True, "lshape", 0.5)]
    if not quick:
        sims += [((3, 3), (3, 3), False, None, 1.0), ((5, 5), None, False, "two", 1.0), ((1, 3), (2, 3), False, None, 1.0), ((3, 1), (3, 2), False, None, 1.0),
                 ((7, 3), None, False, "lshape", 1.0), ((3, 7), None, False, "checker", 1.0), ((3, 5), None, True, "lshape", 2.0), ((5, 3), None, True, "lshape", 2.0),
                 ((3, 3), (3, 3), False, None, 0.5), ((5, 5), None, False, "two", 2.0), ((3, 3), None, False, "hole", -1.0), ((3, 5), None, True, "hole", -0.25),
                 ((3, 3), (3, 4), False, None, 1.0), ((3, 3), (3, 3), True, None, 2.0), ((3, 3), (3, 3), False, None, -1.0), ((3, 5), (3, 3), False, None, 1.0),
                 ((5, 3), (3, 3), False, None, 2.0), ((5, 5), (2, 3), False, None, 0.5), ((1, 5), (2, 3), True, None, 0.5), ((5, 1), (3, 2), False, None, 4.0),
                 ((7, 7), None, False, "lshape", 1.0), ((5, 7), None, True, "lshape", 2.0), ((3, 3), None, False, "ring7", 0.25), ((5, 5), None, False, "spiral7", 1.0),
                 ((3, 5), None, True, "islands7", -2.0)]
    for (ky, kx), inter, normalize, pat, total in sims:
        if pat is None:
            out.append(("case_simulate", {"H": inter[0] + 2 * (ky // 2), "W": inter[1] + 2 * (kx // 2), "ky": ky, "kx": kx, "normalize": normalize, "total": total},
                        {"split": 2 if inter[0] * inter[1] <= 6 else (4 if inter[0] * inter[1] <= 9 else 7)}))
        else:
            H, W, mk = pattern_mask(pat, ky, kx)
            out.append(("case_simulate", {"H": H, "W": W, "ky": ky, "kx": kx, "normalize": normalize, "total": total, "masks": mk, "pattern": pat}))
    return out


def _absmax(x):
    if x is None:
        return 0.0
    try:
        arr = np.asarray(x, dtype=float)
        m = float(np.max(np.abs(arr))) if arr.size else 0.0
        return m if m == m else 0.0
    except (TypeError, ValueError):
        return 0.0


def replay(cand):
    """run the body natively on the counterexample.  Convolution is homogeneous of degree 1 in the image and in the kernel, so
    actual and reference are compared at a tolerance RELATIVE to the scale max|K| * max|values| of the input (1e-7 of it, plus
    the rounding of adding/subtracting the background level) - an absolute 1e-7 would hide a dropped contribution of a faint
    (1e-9-scale) blurring image, which is exactly what a tolerance-based shortcut in the code under test produces."""
    import math
    from symx import shim
    kw = dict(cand["case_kwargs"])
    kw.pop("masks", None)
    kw.pop("pattern", None)
    inp = hx.to_float_struct(cand["case"])
    actual, expected = BODIES[cand["case_fn"]](inp, **kw)
    scale = _absmax(inp.get("K")) * max(_absmax(inp.get("v")), _absmax(inp.get("B")))
    tol_abs = 1e-7 * scale + 1e-12 * _absmax(inp.get("bg")) + 1e-300
    key = cand.get("obligation") if cand.get("obligation") in expected else None
    bad = []
    for k in expected:
        if key is not None and k != key:
            continue
        a, e = actual.get(k), expected[k]
        tol_k = tol_abs if "(int " not in k else 1e-7 * _absmax(inp.get("K")) * 2.0 + 1e-300      # int frames hold values in [-2, 2]
        same = None
        if k in actual and not isinstance(a, (hx.Raised, str)) and not isinstance(e, (hx.Raised, str)) and a is not None and e is not None:
            try:
                sa, fa = hx._flat(shim.normalise(hx.unwrap(a)))
                se, fe = hx._flat(shim.normalise(hx.unwrap(e)))
                if sa == se:
                    fa, fe = [float(x) for x in fa], [float(x) for x in fe]
                    if all(math.isfinite(x) for x in fa + fe):
                        same = all(abs(x - y) <= tol_k for x, y in zip(fa, fe))
            except (TypeError, ValueError):
                same = None
        if same is None:
            same = k in actual and hx.concrete_equal(a, e, 1e-7)
        if not same:
            bad.append(k)
    if bad:
        k = bad[0]
        return True, "outputs differ from the reference on the real code (tolerance %.3g = 1e-7 of the input scale): %s; e.g. %s: actual=%s expected=%s" % (
            tol_abs, bad, k, hx._short(actual.get(k)), hx._short(expected[k]))
    return False, "real code agrees with the reference on this input (%d outputs, tolerance %.3g)" % (len(expected), tol_abs)
