"""C16 - FITS output followed by input reproduces values, orientation and pixel scale (narrowed claim).

The repository's own write / read functions run on symbolic pixel values and symbolic pixel scales.  The library
boundary `astropy.io.fits` (and the four `os` calls made by the two writer functions) is replaced, *only while the
code runs on proxies*, by an in-memory model that stores and returns data and header cards unchanged.  Whenever the
same body runs on floats (per-path encoding validation under a solver model, and every replay) the REAL astropy and
the REAL file system (a fresh temporary directory) are used, so the stub contract itself is cross-checked on every run.
"""
import logging
import os
import shutil
import tempfile

import numpy as np
import z3

from symx import hx, shim, values as V

PROPERTY = "C16"
FUNCTIONS = [
    "autoarray.structures.arrays.array_2d_util.hdu_for_output_from",
    "autoarray.structures.arrays.array_2d_util.numpy_array_2d_to_fits",
    "autoarray.structures.arrays.array_2d_util.numpy_array_2d_via_fits_from",
    "autoarray.structures.arrays.array_2d_util.header_obj_from",
    "autoarray.structures.arrays.array_1d_util.hdu_for_output_from",
    "autoarray.structures.arrays.array_1d_util.numpy_array_1d_to_fits",
    "autoarray.structures.arrays.array_1d_util.numpy_array_1d_via_fits_from",
    "autoarray.abstract_ndarray.AbstractNDArray.flip_hdu_for_ds9",
    "autoarray.mask.abstract_mask.Mask.pixel_scale",
    "autoarray.mask.abstract_mask.Mask.pixel_scale_header",
    "autoarray.structures.arrays.uniform_2d.AbstractArray2D.hdu_for_output",
    "autoarray.structures.arrays.uniform_2d.AbstractArray2D.output_to_fits",
    "autoarray.structures.arrays.uniform_2d.Array2D.from_fits",
    "autoarray.structures.arrays.uniform_2d.Array2D.from_primary_hdu",
    "autoarray.structures.arrays.kernel_2d.Kernel2D.from_fits",
    "autoarray.structures.arrays.kernel_2d.Kernel2D.from_primary_hdu",
    "autoarray.structures.arrays.uniform_1d.Array1D.from_fits",
    "autoarray.structures.arrays.uniform_1d.Array1D.from_primary_hdu",
    "autoarray.structures.arrays.uniform_1d.Array1D.hdu_for_output",
    "autoarray.structures.arrays.uniform_1d.Array1D.output_to_fits",
    "autoarray.mask.mask_2d.Mask2D.from_fits",
    "autoarray.mask.mask_2d.Mask2D.from_primary_hdu",
    "autoarray.mask.mask_2d.Mask2D.hdu_for_output",
    "autoarray.mask.mask_2d.Mask2D.output_to_fits",
    "autoarray.mask.mask_1d.Mask1D.from_fits",
    "autoarray.mask.mask_1d.Mask1D.from_primary_hdu",
    "autoarray.mask.mask_1d.Mask1D.hdu_for_output",
    "autoarray.mask.mask_1d.Mask1D.output_to_fits",
    "autoarray.dataset.imaging.dataset.Imaging.from_fits",
    "autoarray.dataset.imaging.dataset.Imaging.output_to_fits",
]
BOUNDS = {
    "quick": "flip_for_ds9 in {False, True} (enumerated). 2D (Array2D with mask, Kernel2D, Mask2D; file and HDU route): every shape HxW with H,W <= 3 "
             "plus 1x4, 4x1, 2x4, 4x2 with ALL masks (>= 1 unmasked pixel, forked), 3x4 and 4x3 with a fixed mask family (unmasked, checkerboard, one "
             "corner, first row, last column); pixel values of Array2D / Kernel2D and both pixel scales (> 0, isotropic and anisotropic) symbolic reals. "
             "Mask2D.from_fits options invert in {F,T} x resized_mask_shape in {None, (H+2,W+2), (H+2,W), (H-2,W-2) when >= 1}. 1D (Array1D with mask, "
             "Mask1D): lengths 1..5, all masks, symbolic values and scale. File-system histories: absent -> write -> refused write -> overwrite=True with "
             "other content, shape and pixel scale -> overwrite=True on an absent path, for EVERY writer (Array2D, Kernel2D, Mask2D, Array1D, Mask1D, "
             "Imaging) crossed with EVERY path kind (absolute with three missing directory levels, absolute in an existing directory, relative path with "
             "missing directories, bare file name in the current directory); contents and both pixel scales symbolic (masks: old 1x3 / new 2x1 bits "
             "forked; Imaging 3x3 -> 3x4); old and new (y, x) scales independent (iso/aniso in every combination); after the overwrite "
             "the non-structural header cards and the number of HDUs must equal those of a fresh write of the new object; a 3-HDU file with foreign "
             "cards overwritten by a structure; a structure's file overwritten by a plain ndarray (no geometry card may survive). "
             "Derived arrays: masked Array2D (all masks for H*W <= 6, mask family for 3x3, 3x4, 4x3, 2x4, 4x2) and Array1D (lengths 1..5, all masks) in BOTH "
             "storage modes (store_native F/T), fresh and after x + c, x * c, c - x with c symbolic, written on BOTH routes (file and HDU). "
             "Multi-extension files: 3 HDUs written through hdu_for_output, every hdu index 0..2 read back (Array2D, Kernel2D, Mask2D, Array1D; shapes "
             "2x3, 3x2, 1x3, 3x1). Small-magnitude regime: the 2D / 1D round trips again with values 2^-30 (n + 1/3), n a symbolic integer in "
             "[-1000, 1000] (shapes 2x3, 3x2, 1x3, 3x1, N=3). Imaging: one pre-existing psf / noise-map target among fresh paths with overwrite=False "
             "must fail and stay untouched. Imaging.output_to_fits -> from_fits: 3x3 data / noise map (> 0), 3x3 PSF with unit sum, all symbolic.",
    "thorough": "everything of quick, plus (same obligations): case_2d with ALL masks forked for every 2D shape with H*W <= 12 and H,W <= 8 (3x4, 4x3, "
                "2x5, 5x2, 2x6, 6x2, 1x5..1x8, 5x1..8x1; above 9 pixels the Mask2D.from_fits options are {None, (H+2,W+2)} x invert) and with the "
                "5-mask family for 4x4, 3x5, 5x3, 4x5, 5x4, 5x5, 2x7, 7x2, 1x9, 9x1, 3x6, 6x3, 6x6, 2x8, 8x2; derived arrays (both storage modes, "
                "id / + c / * c / c - x, both routes) with ALL masks for H*W <= 9 and for 2x5, 5x2, 2x6, 6x2, 3x4, 4x3, the 4-mask family for the larger "
                "shapes just listed; 1D (case_1d and derived) lengths 1..10 with all masks; small-magnitude regime for 1x1, 2x2, 3x3, 3x4, 4x3, 4x4, "
                "1x5, 5x1 x {unmasked, checkerboard, corner} and 1D lengths 1, 2, 3, 5, 8; multi-extension files also for 1x1, 2x2, 3x3, 3x4, 4x3, 4x4, "
                "1x5, 5x1; Imaging round trips also 3x4, 4x3, 4x4, 3x5, 5x5, 6x6; file-system histories (every path kind, both flips): array "
                "writers with content-shape pairs 2x3->3x2, 1x3->2x2, 3x1->1x1, 3x3->1x1, 1x1->3x4, 4x1->1x4, 3x4->4x3; mask writers with old/new mask "
                "bits forked for 1x3->2x2, 2x2->1x3, 2x2->2x2, 1x4->2x1; Imaging 3x3->3x4, 4x4->3x3, 3x4->5x5",
}
OUTSIDE = [
    "astropy's serialiser itself (byte layout, BITPIX/dtype conversion, BSCALE/BZERO scaling, header-card float formatting to 16 digits): only exercised "
    "concretely (real astropy + real temporary files) in the per-path validation runs and in replays, not by the solver",
    "the real file system under the solver: exists/makedirs/remove/'file already exists' are decided on an in-memory model of the four os calls; the real "
    "os is exercised only in validation runs / replays; permissions, symlinks, pathlib.Path arguments, relative paths with directories are outside",
    "shapes larger than 12 pixels / 1D longer than 8; Kernel2D normalize=True; origin arguments (passed through by the caller, not stored in the file)",
    "non-finite values (nan/inf) and float64 rounding (none arises: values are only copied, reordered and multiplied by 0/1)",
]
STUBS = [
    "astropy.io.fits inside array_2d_util, array_1d_util, uniform_2d, uniform_1d, kernel_2d, mask_2d, mask_1d (symbolic runs only): in-memory "
    "Header / PrimaryHDU / ImageHDU / HDUList / open / writeto that store and return the data array and the header cards unchanged (contract: astropy "
    "round-trips float64 data and float header cards; writeto raises OSError when the path exists and FileNotFoundError when its directory does not); "
    "hdu.data is an ndarray whose astype('float') keeps proxy entries; open(mode='update') edits the stored file in place (all cards not "
    "overwritten and all further HDUs are kept, Header.update sets / appends cards, flush / close / leaving the with-block write back)",
    "os.path.exists / os.makedirs / os.remove (and pathlib.Path.exists / is_file / is_dir / mkdir / unlink) inside every autoarray module that imports them (symbolic runs only): in-memory directory/file sets with POSIX "
    "behaviour (exists('') is False, makedirs('') raises FileNotFoundError, makedirs creates all ancestors, remove deletes the file)",
    "astype(float32 / float16) of an array holding symbolic reals (anywhere in the repository): every entry x becomes r32(x), an uninterpreted "
    "function with |r32(x) - x| <= 2^-24 |x| (IEEE single-precision relative error, normal range); concrete entries go through numpy's float32. "
    "In the tiny-magnitude cases the inputs are 2^-30 (n + 1/3), which are never single-precision values, so r32(v) != v is stated as well",
    "type(x) inside geometry_util / mask_1d: a symbolic real counts as a Python float (header values returned by astropy are Python floats)",
]
ASSUMPTIONS = [
    "mask bits are explored by forking (one path per mask); pixel values, kernel values and pixel scales are solver variables (scales > 0)",
    "pixel scales are exactly isotropic or clearly anisotropic (|sy - sx| >= 2e-8): pairs in between are outside the claim (below 1e-8 the library "
    "writes one PIXSCALE card by design, next to 1e-8 its isotropy test sits at rounding distance); all pixel-scale obligations are exact equalities, "
    "replays compare scales relative to their magnitude (1e-12)",
]
EXPLORER_OPTS = {"max_paths": 140000, "timeout_ms": 20000}
BUDGET_S = {"quick": 600, "thorough": 3000}

SCALE_REL_TOL = 1e-12      # replay: header scales relative to their magnitude (astropy cards carry 16 significant digits)
_STUBBED = [False]


def _sym_mode():
    """True while the repository code runs on proxies (in-memory fits / os models active)"""
    return _STUBBED[0] and shim.ENABLED[0]


# ---------------------------------------------------------------------------- in-memory model of astropy.io.fits + os

def _is_single(dtype):
    try:
        dt = np.dtype(dtype)
    except TypeError:
        return False
    return dt.kind == "f" and dt.itemsize < 8


def r32_term(t):
    """single-precision rounding of a symbolic real: uninterpreted function r32 with the IEEE relative error bound
    |r32(x) - x| <= 2^-24 |x| (normal range; overflow / subnormals outside). Whether r32(x) == x is left open here."""
    c = V.ctx()
    f = c.uf("r32", 1)
    r = f(t)
    d = r - t
    bound = V.rval(2.0 ** -24) * z3.If(t >= 0, t, -t)
    c.assume(z3.And(d <= bound, -d <= bound))
    return r


def _single_cast(arr):
    """astype(float32 / float16) of an object array: proxies go through r32, concrete entries through numpy's float32"""
    out = np.empty(arr.shape, dtype=object)
    fo = out.reshape(-1)
    for i, e in enumerate(np.asarray(arr).reshape(-1)):
        fo[i] = V.SymReal(r32_term(V.to_real_term(e))) if V.is_sym(e) else np.float64(np.float32(e))
    return out.view(SymNd)


class SymNd(np.ndarray):
    """object ndarray whose astype(float) keeps proxies (numpy would call float() on every entry); a cast to single precision
    rounds (r32), so a float32 HDU reads back the float32-rounded values"""

    def astype(self, dtype, *a, **kw):
        if self.dtype == object and shim.has_sym(self) and _is_single(dtype):
            return _single_cast(self)
        if self.dtype == object and shim.has_sym(self):
            try:
                kind = np.dtype(dtype).kind
            except TypeError:
                kind = "f"
            if kind == "f":
                return self.copy()
            raise V.Unsupported("astype(%r) of an array holding symbolic reals" % (dtype,))
        return np.asarray(self.view(np.ndarray).astype(dtype, *a, **kw))


def _as_data(data):
    """what astropy's `.data` holds: an ndarray (non-ndarray inputs go through np.array)"""
    if data is None:
        return None
    arr = shim.unwrap(data)
    if not isinstance(arr, np.ndarray):
        arr = np.array(arr)
    if arr.dtype == object:
        arr = shim.normalise(arr)
    if arr.dtype == object:
        return arr.view(SymNd)
    if arr.dtype == bool:
        raise TypeError("astropy cannot write boolean image data")
    return arr


class MemHeader:
    def __init__(self, cards=None):
        self.cards = list(cards or [])

    def append(self, card=None, **kw):
        key, value = card[0], card[1]
        self.cards.append((str(key).upper(), value))

    def __setitem__(self, key, value):
        key = key.upper()
        for i, (k, _) in enumerate(self.cards):
            if k == key:
                self.cards[i] = (key, value)
                return
        self.cards.append((key, value))

    def __getitem__(self, key):
        for k, v in self.cards:
            if k == key.upper():
                return v
        raise KeyError("Keyword %r not found." % key)

    def __contains__(self, key):
        return any(k == str(key).upper() for k, _ in self.cards)

    def get(self, key, default=None):
        return self[key] if key in self else default

    def keys(self):
        return [k for k, _ in self.cards]

    def update(self, other=None, **kw):
        """astropy semantics: cards of `other` are set (replaced or appended), all other cards are kept"""
        cards = other.cards if isinstance(other, MemHeader) else list(dict(other or {}).items())
        for k, v in list(cards) + list(kw.items()):
            self[k] = v

    def copy(self):
        return MemHeader(self.cards)


class VFS:
    def __init__(self):
        self.dirs = {"/vfs"}
        self.files = {}

    def exists(self, p):
        p = str(p)
        return p in self.dirs or p in self.files

    def makedirs(self, p):
        p = str(p)
        if p == "":
            raise FileNotFoundError(2, "No such file or directory", p)
        if self.exists(p):
            raise FileExistsError(17, "File exists", p)
        while p and p != "/" and p not in self.dirs:
            self.dirs.add(p)
            p = os.path.split(p)[0]

    def remove(self, p):
        p = str(p)
        if p not in self.files:
            raise FileNotFoundError(2, "No such file or directory", p)
        del self.files[p]

    def write(self, p, hdus, overwrite=False):
        p = str(p)
        d = os.path.split(p)[0]
        if d != "" and d not in self.dirs:      # '' = current directory, which always exists
            raise FileNotFoundError(2, "No such file or directory", p)
        if p in self.files and not overwrite:
            raise OSError("File %s already exists. If you mean to replace it then use the argument \"overwrite=True\"." % p)
        self.files[p] = [h._snapshot() for h in hdus]

    def read(self, p, mode="readonly"):
        p = str(p)
        if p not in self.files:
            raise FileNotFoundError(2, "No such file or directory", p)
        hl = MemHDUList([h._snapshot() for h in self.files[p]])
        if mode == "update":        # edits are written back to the same file by flush() / close()
            hl._update_path = p
        elif mode not in ("readonly", "denywrite", "copyonwrite"):
            raise ValueError("Mode %r not recognized" % (mode,))
        return hl


_VFS = [VFS()]


class MemHDU:
    def __init__(self, data=None, header=None, **kw):
        self.data = data
        self.header = header.copy() if header is not None else MemHeader()

    @property
    def data(self):
        return self._data

    @data.setter
    def data(self, value):
        self._data = _as_data(value)

    def _snapshot(self):
        return type(self)(None if self.data is None else self.data.copy(), self.header)

    def writeto(self, name, overwrite=False, **kw):
        _VFS[0].write(name, [self], overwrite=overwrite)


class MemPrimaryHDU(MemHDU):
    pass


class MemImageHDU(MemHDU):
    pass


class MemHDUList(list):
    _update_path = None

    def writeto(self, name, overwrite=False, **kw):
        _VFS[0].write(name, list(self), overwrite=overwrite)

    def flush(self, **kw):
        if self._update_path is not None:
            _VFS[0].files[self._update_path] = [h._snapshot() for h in self]

    def close(self, **kw):
        self.flush()
        self._update_path = None

    def __enter__(self):
        return self

    def __exit__(self, *a):
        self.close()
        return False


class _MemFits:
    Header = MemHeader
    PrimaryHDU = MemPrimaryHDU
    ImageHDU = MemImageHDU
    HDUList = MemHDUList

    @staticmethod
    def open(name, mode="readonly", **kw):
        return _VFS[0].read(name, mode=mode)


class FitsFacade:
    """stands in for the `fits` global of the repository modules"""

    def __getattr__(self, name):
        if _sym_mode():
            return getattr(_MemFits, name)
        from astropy.io import fits as real
        return getattr(real, name)


class _PathFacade:
    def __getattr__(self, name):
        return getattr(os.path, name)

    def exists(self, p):
        if _sym_mode():
            return _VFS[0].exists(p)
        return os.path.exists(p)


class OSFacade:
    path = _PathFacade()

    def __getattr__(self, name):
        return getattr(os, name)

    def makedirs(self, p, *a, **kw):
        if _sym_mode():
            return _VFS[0].makedirs(p)
        return os.makedirs(p, *a, **kw)

    def remove(self, p):
        if _sym_mode():
            return _VFS[0].remove(p)
        return os.remove(p)


import pathlib


class VPath(type(pathlib.Path())):
    """stands in for the `Path` global of the repository modules: file-system queries consult the in-memory files while symbolic"""

    def exists(self, *a, **kw):
        if _sym_mode():
            return _VFS[0].exists(str(self))
        return super().exists(*a, **kw)

    def is_file(self, *a, **kw):
        if _sym_mode():
            return str(self) in _VFS[0].files
        return super().is_file(*a, **kw)

    def is_dir(self, *a, **kw):
        if _sym_mode():
            return str(self) in _VFS[0].dirs
        return super().is_dir(*a, **kw)

    def mkdir(self, mode=0o777, parents=False, exist_ok=False):
        if _sym_mode():
            if _VFS[0].exists(str(self)):
                if exist_ok:
                    return
                raise FileExistsError(17, "File exists", str(self))
            return _VFS[0].makedirs(str(self))
        return super().mkdir(mode=mode, parents=parents, exist_ok=exist_ok)

    def unlink(self, missing_ok=False):
        if _sym_mode():
            if str(self) not in _VFS[0].files and missing_ok:
                return
            return _VFS[0].remove(str(self))
        return super().unlink(missing_ok=missing_ok)


FITS = FitsFacade()
OSF = OSFacade()


def _round(x, n=None):
    """round(x, n) of a symbolic real: nearest multiple of 10^-n (ties, a null set, go up); everything else as the shim does"""
    if n is not None and V.is_sym(x) and isinstance(n, int):
        scale = z3.RealVal(10 ** n) if n >= 0 else z3.RealVal(1) / z3.RealVal(10 ** (-n))
        k = z3.ToInt(V.to_real_term(x) * scale + z3.RealVal("1/2"))
        return V.SymReal(z3.ToReal(k) / scale)
    return shim.s_round(x, n)


def _float_type(*a):
    if len(a) == 1 and isinstance(a[0], V.SymReal):
        return shim.SFloat
    return shim.s_type(*a)


def POST_INSTALL():
    import sys
    import autoarray  # noqa
    for name in ("autoarray.structures.arrays.array_2d_util", "autoarray.structures.arrays.array_1d_util",
                 "autoarray.structures.arrays.uniform_2d", "autoarray.structures.arrays.uniform_1d",
                 "autoarray.structures.arrays.kernel_2d", "autoarray.mask.mask_2d", "autoarray.mask.mask_1d"):
        d = sys.modules[name].__dict__
        if "fits" in d:
            d["fits"] = FITS
        if d.get("os") is os:
            d["os"] = OSF
    # every other repository module that consults the file system must see the same (in-memory) files while symbolic
    for name, mod in list(sys.modules.items()):
        if mod is not None and (name == "autoarray" or name.startswith("autoarray.")):
            d = mod.__dict__
            if d.get("os") is os:
                d["os"] = OSF
            if d.get("path") is os.path:
                d["path"] = OSF.path
            if d.get("Path") is pathlib.Path:
                d["Path"] = VPath
            if d.get("round") is shim.s_round:
                d["round"] = _round
    # header values are Python floats in reality: `type(pixel_scales) is float` must hold for a symbolic real
    for name in ("autoarray.geometry.geometry_util", "autoarray.mask.mask_1d"):
        d = sys.modules[name].__dict__
        d["type"] = _float_type
        d["float"] = shim.SFloat
    orig_array = shim.NPFacade.array

    def array(self, obj, dtype=None, **kw):
        r = orig_array(self, obj, dtype, **kw)
        if type(r) is np.ndarray and r.dtype == object:
            r = r.view(SymNd)
        return r

    shim.NPFacade.array = array
    # the engine's own object-array type models every float cast as exact: single-precision casts must round
    sym_array = getattr(V, "SymArray", None)
    if sym_array is not None and not getattr(sym_array, "_c16_single", False):
        orig_astype = sym_array.astype

        def astype(self, dtype, *a, **kw):
            if self.dtype == object and _is_single(dtype) and shim.has_sym(self):
                return _single_cast(self)
            return orig_astype(self, dtype, *a, **kw)

        sym_array.astype = astype
        sym_array._c16_single = True
    _STUBBED[0] = True


logging.getLogger("autoarray.mask.abstract_mask").setLevel(logging.ERROR)


# ---------------------------------------------------------------------------- environment of one body run

class Env:
    """flip option + a scratch directory (in-memory while symbolic, a real temporary directory otherwise)"""

    def __init__(self, flip):
        from autoconf import conf
        self.conf = conf
        self.old_flip = conf.instance["general"]["fits"]["flip_for_ds9"]
        conf.instance["general"]["fits"]["flip_for_ds9"] = bool(flip)
        self.sym = _sym_mode()
        self.cwd = None
        if self.sym:
            _VFS[0] = VFS()
            self.base = "/vfs"
        else:
            self.base = tempfile.mkdtemp(prefix="c16_")

    def path(self, *parts):
        return "/".join((self.base,) + parts)

    def in_cwd(self, f):
        """run f with the scratch directory as current directory (bare file names)"""
        if self.sym:
            return f()
        old = os.getcwd()
        os.chdir(self.base)
        try:
            return f()
        finally:
            os.chdir(old)

    def fits(self):
        if self.sym:
            return _MemFits
        from astropy.io import fits as real
        return real

    def raw(self, p, k=0):
        """data and header of HDU k exactly as stored, read with the fits library directly (not via the repository)"""
        f = self.fits()
        hl = f.open(p)
        try:
            d = hl[k].data
            d = None if d is None else (d if self.sym else np.array(d, dtype=float))
            return d, hl[k].header
        finally:
            hl.close()

    def close(self):
        self.conf.instance["general"]["fits"]["flip_for_ds9"] = self.old_flip
        if not self.sym:
            shutil.rmtree(self.base, ignore_errors=True)


def _scal(x):
    """concrete scales are Python floats, as a user passes them (np.float64 fails the library's `type(x) is float`)"""
    return x if V.is_sym(x) else float(x)


def _vals(x, shape):
    a = np.asarray(x)
    if a.dtype != object:
        a = a.astype(float)
    return a.reshape(shape)


def _hdr_scales(h, dims=2):
    """pixel scales encoded by a header: PIXSCALE (isotropic) or PIXSCALEY / PIXSCALEX"""
    if h is None:
        return "no header"
    if dims == 1:
        return [h["PIXSCALE"]] if "PIXSCALE" in h else "no pixel scale card"
    if "PIXSCALEY" in h and "PIXSCALEX" in h:
        return [h["PIXSCALEY"], h["PIXSCALEX"]]
    if "PIXSCALE" in h:
        return [h["PIXSCALE"], h["PIXSCALE"]]
    return "no pixel scale card"


def _flipud(a, flip):
    return a[::-1].copy() if flip else a


def _masked(v, mask):
    out = np.zeros(v.shape, dtype=object)
    for idx in np.ndindex(*v.shape):
        out[idx] = 0.0 if mask[idx] else v[idx]
    return out


def _centred(b, new_shape):
    """b placed at the centre of new_shape, new pixels False; only parity-preserving resizes are used"""
    H, W = b.shape
    dy, dx = (new_shape[0] - H) // 2, (new_shape[1] - W) // 2
    out = np.zeros(new_shape, dtype=bool)
    for y in range(new_shape[0]):
        for x in range(new_shape[1]):
            yy, xx = y - dy, x - dx
            if 0 <= yy < H and 0 <= xx < W:
                out[y, x] = b[yy, xx]
    return out


def _fails(r):
    """'writing to an existing path fails': any OSError subclass (FileExistsError, ...) counts as the documented failure"""
    import builtins
    if isinstance(r, hx.Raised):
        cls = getattr(builtins, r.name, None)
        if isinstance(cls, type) and issubclass(cls, OSError):
            return hx.Raised("OSError")
    return r


def _get(o, f):
    """f(o) unless o is a Raised marker"""
    return o if isinstance(o, hx.Raised) else hx.attempt(lambda: f(o))


def _nat(o):
    return _get(o, lambda b: np.asarray(b.native.array))


def _bools(o):
    def f(b):
        a = np.asarray(b.array)
        if a.dtype != bool:
            return "dtype %s" % a.dtype
        return a
    return _get(o, f)


# ---------------------------------------------------------------------------- bodies

def body_2d(inp, H, W, flip, full=True):
    import autoarray as aa
    from autoarray.structures.arrays import array_2d_util
    mask = np.array(inp["mask"], dtype=bool).reshape(H, W)
    v = _vals(inp["v"], (H, W))
    k = _vals(inp["k"], (H, W))
    sy, sx = [_scal(x) for x in inp["scales"]]
    env = Env(flip)
    A, E = {}, {}
    try:
        m = aa.Mask2D(mask=mask, pixel_scales=(sy, sx))
        e_nat = _masked(v, mask)
        # ---------------- Array2D (masked): file
        arr = aa.Array2D(values=v.copy(), mask=m)
        p = env.path("arr", "deep", "a.fits")
        A["arr.file.write"] = hx.attempt(lambda: arr.output_to_fits(file_path=p))
        E["arr.file.write"] = None
        if A["arr.file.write"] is None:
            back = hx.attempt(lambda: aa.Array2D.from_fits(file_path=p, pixel_scales=(sy, sx)))
            A["arr.file.native"], E["arr.file.native"] = _nat(back), e_nat
            A["arr.file.shape"], E["arr.file.shape"] = _get(back, lambda b: list(b.shape_native)), [H, W]
            A["arr.file.header_scale"] = _get(back, lambda b: _hdr_scales(b.header.header_sci_obj))
            E["arr.file.header_scale"] = [sy, sx]
            A["arr.file.header_hdu_scale"] = _get(back, lambda b: _hdr_scales(b.header.header_hdu_obj))
            E["arr.file.header_hdu_scale"] = [sy, sx]
            A["arr.file.stored"] = hx.attempt(lambda: env.raw(p)[0])
            E["arr.file.stored"] = _flipud(e_nat, flip)
        # ---------------- Array2D: header-data unit
        hdu = hx.attempt(lambda: arr.hdu_for_output)
        A["arr.hdu.stored"], E["arr.hdu.stored"] = _get(hdu, lambda h: np.asarray(h.data)), _flipud(e_nat, flip)
        back = _get(hdu, lambda h: aa.Array2D.from_primary_hdu(primary_hdu=h))
        A["arr.hdu.native"], E["arr.hdu.native"] = _nat(back), e_nat
        A["arr.hdu.shape"], E["arr.hdu.shape"] = _get(back, lambda b: list(b.shape_native)), [H, W]
        A["arr.hdu.pixel_scales"], E["arr.hdu.pixel_scales"] = _get(back, lambda b: list(b.pixel_scales)), [sy, sx]
        # ---------------- Kernel2D (unmasked by construction)
        ker = aa.Kernel2D.no_mask(values=k.copy(), pixel_scales=(sy, sx))
        p = env.path("ker.fits")
        A["ker.file.write"] = hx.attempt(lambda: ker.output_to_fits(file_path=p))
        E["ker.file.write"] = None
        if A["ker.file.write"] is None:
            back = hx.attempt(lambda: aa.Kernel2D.from_fits(file_path=p, hdu=0, pixel_scales=(sy, sx)))
            A["ker.file.native"], E["ker.file.native"] = _nat(back), k
            A["ker.file.type"], E["ker.file.type"] = _get(back, lambda b: type(b).__name__), "Kernel2D"
            A["ker.file.header_scale"] = _get(back, lambda b: _hdr_scales(b.header.header_sci_obj))
            E["ker.file.header_scale"] = [sy, sx]
        hdu = hx.attempt(lambda: ker.hdu_for_output)
        A["ker.hdu.stored"], E["ker.hdu.stored"] = _get(hdu, lambda h: np.asarray(h.data)), _flipud(k, flip)
        back = _get(hdu, lambda h: aa.Kernel2D.from_primary_hdu(primary_hdu=h))
        A["ker.hdu.native"], E["ker.hdu.native"] = _nat(back), k
        A["ker.hdu.type"], E["ker.hdu.type"] = _get(back, lambda b: type(b).__name__), "Kernel2D"
        A["ker.hdu.pixel_scales"], E["ker.hdu.pixel_scales"] = _get(back, lambda b: list(b.pixel_scales)), [sy, sx]
        # ---------------- Mask2D: file, with the read options
        p = env.path("masks", "m.fits")
        A["mask.file.write"] = hx.attempt(lambda: m.output_to_fits(file_path=p))
        E["mask.file.write"] = None
        if A["mask.file.write"] is None:
            A["mask.file.stored"] = hx.attempt(lambda: env.raw(p)[0])
            E["mask.file.stored"] = _flipud(mask.astype(float), flip)
            A["mask.file.header_scale"] = hx.attempt(lambda: _hdr_scales(array_2d_util.header_obj_from(file_path=p, hdu=0)))
            E["mask.file.header_scale"] = [sy, sx]
            shapes = [None, (H + 2, W + 2), (H + 2, W)] + ([(H - 2, W - 2)] if H > 2 and W > 2 else [])
            for invert in (False, True):
                for rs in (shapes if full else shapes[:2]):
                    key = "mask.file.bools.inv%d.%s" % (invert, "same" if rs is None else "%dx%d" % rs)
                    back = hx.attempt(lambda: aa.Mask2D.from_fits(file_path=p, pixel_scales=(sy, sx), invert=invert, resized_mask_shape=rs))
                    b = ~mask if invert else mask
                    A[key] = _bools(back)
                    E[key] = b if rs is None else _centred(b, rs)
        hdu = hx.attempt(lambda: m.hdu_for_output)
        A["mask.hdu.stored"], E["mask.hdu.stored"] = _get(hdu, lambda h: np.asarray(h.data)), _flipud(mask.astype(float), flip)
        back = _get(hdu, lambda h: aa.Mask2D.from_primary_hdu(primary_hdu=h))
        A["mask.hdu.bools"], E["mask.hdu.bools"] = _bools(back), mask
        A["mask.hdu.pixel_scales"], E["mask.hdu.pixel_scales"] = _get(back, lambda b: list(b.pixel_scales)), [sy, sx]
    finally:
        env.close()
    return A, E


def body_1d(inp, N, flip):
    import autoarray as aa
    from autoarray.structures.arrays import array_2d_util
    mask = np.array(inp["mask"], dtype=bool).reshape(N)
    v = _vals(inp["v"], (N,))
    s = _scal(inp["scale"])
    env = Env(flip)
    A, E = {}, {}
    try:
        m = aa.Mask1D(mask=mask, pixel_scales=(s,))
        e_nat = _masked(v, mask)
        arr = aa.Array1D(values=v.copy(), mask=m)
        p = env.path("one", "a1.fits")
        A["arr1d.file.write"] = hx.attempt(lambda: arr.output_to_fits(file_path=p))
        E["arr1d.file.write"] = None
        if A["arr1d.file.write"] is None:
            back = hx.attempt(lambda: aa.Array1D.from_fits(file_path=p, pixel_scales=(s,)))
            A["arr1d.file.native"], E["arr1d.file.native"] = _nat(back), e_nat
            A["arr1d.file.shape"], E["arr1d.file.shape"] = _get(back, lambda b: list(b.shape_native)), [N]
            A["arr1d.file.header_scale"] = _get(back, lambda b: _hdr_scales(b.header.header_sci_obj, 1))
            E["arr1d.file.header_scale"] = [s]
        hdu = hx.attempt(lambda: arr.hdu_for_output)
        back = _get(hdu, lambda h: aa.Array1D.from_primary_hdu(primary_hdu=h))
        A["arr1d.hdu.native"], E["arr1d.hdu.native"] = _nat(back), e_nat
        A["arr1d.hdu.shape"], E["arr1d.hdu.shape"] = _get(back, lambda b: list(b.shape_native)), [N]
        A["arr1d.hdu.pixel_scales"], E["arr1d.hdu.pixel_scales"] = _get(back, lambda b: list(b.pixel_scales)), [s]
        p = env.path("one", "m1.fits")
        A["mask1d.file.write"] = hx.attempt(lambda: m.output_to_fits(file_path=p))
        E["mask1d.file.write"] = None
        if A["mask1d.file.write"] is None:
            back = hx.attempt(lambda: aa.Mask1D.from_fits(file_path=p, pixel_scales=(s,)))
            A["mask1d.file.bools"], E["mask1d.file.bools"] = _bools(back), mask
            A["mask1d.file.header_scale"] = hx.attempt(lambda: _hdr_scales(array_2d_util.header_obj_from(file_path=p, hdu=0), 1))
            E["mask1d.file.header_scale"] = [s]
        hdu = hx.attempt(lambda: m.hdu_for_output)
        back = _get(hdu, lambda h: aa.Mask1D.from_primary_hdu(primary_hdu=h))
        A["mask1d.hdu.bools"], E["mask1d.hdu.bools"] = _bools(back), mask
        A["mask1d.hdu.pixel_scales"], E["mask1d.hdu.pixel_scales"] = _get(back, lambda b: list(b.pixel_scales)), [s]
    finally:
        env.close()
    return A, E


DERIVED_OPS = (("id", lambda a, c: a), ("add", lambda a, c: a + c), ("mul", lambda a, c: a * c), ("rsub", lambda a, c: c - a))


def body_derived(inp, H, W, flip, dims=2):
    """masked arrays that went through arithmetic (x + c, x * c, c - x), in BOTH storage modes, written on BOTH routes: the raw buffer
    of a derived array need not be zero at masked pixels, the file / HDU must still read back with zeros there"""
    import autoarray as aa
    shape = (H, W) if dims == 2 else (H * W,)
    mask = np.array(inp["mask"], dtype=bool).reshape(shape)
    v = _vals(inp["v"], shape)
    c = inp["c"] if V.is_sym(inp["c"]) else float(inp["c"])
    s = _scal(inp["s"])
    env = Env(flip)
    A, E = {}, {}
    try:
        if dims == 2:
            m = aa.Mask2D(mask=mask, pixel_scales=(s, s))
            cls, sc = aa.Array2D, (s, s)
        else:
            m = aa.Mask1D(mask=mask, pixel_scales=(s,))
            cls, sc = aa.Array1D, (s,)
        for sn in (False, True):
            arr = cls(values=v.copy(), mask=m, store_native=sn)
            for opn, opf in DERIVED_OPS:
                tag = "%dd.sn%d.%s" % (dims, sn, opn)
                d = hx.attempt(lambda: opf(arr, c))
                e_nat = _masked(np.array([opf(x, c) for x in v.reshape(-1)], dtype=object).reshape(shape), mask)
                A[tag + ".type"], E[tag + ".type"] = _get(d, lambda o: type(o).__name__), cls.__name__
                if isinstance(d, hx.Raised):
                    continue
                p = env.path("derived", tag + ".fits")
                w = hx.attempt(lambda: d.output_to_fits(file_path=p))
                A[tag + ".file.write"], E[tag + ".file.write"] = w, None
                if w is None:
                    back = hx.attempt(lambda: cls.from_fits(file_path=p, pixel_scales=sc))
                    A[tag + ".file.native"], E[tag + ".file.native"] = _nat(back), e_nat
                    A[tag + ".file.stored"] = hx.attempt(lambda: env.raw(p)[0])
                    E[tag + ".file.stored"] = _flipud(e_nat, flip and dims == 2)
                hdu = hx.attempt(lambda: d.hdu_for_output)
                back = _get(hdu, lambda h: cls.from_primary_hdu(primary_hdu=h))
                A[tag + ".hdu.native"], E[tag + ".hdu.native"] = _nat(back), e_nat
                A[tag + ".hdu.pixel_scales"], E[tag + ".hdu.pixel_scales"] = _get(back, lambda b: list(b.pixel_scales)), list(sc)
    finally:
        env.close()
    return A, E


FS_WRITERS = ("array2d", "kernel2d", "mask2d", "array1d", "mask1d", "imaging")
FS_KINDS = ("nested", "absdir", "reldir", "bare")
FS_STEPS = ("first.write", "first.read", "first.scale", "refused.write", "refused.read", "refused.scale",
            "overwrite.write", "overwrite.read", "overwrite.scale", "overwrite_absent.write", "overwrite_absent.read",
            "overwrite.cards", "overwrite.n_hdus", "multi.write", "multi.read", "multi.scale", "multi.cards", "multi.n_hdus",
            "plain.write", "plain.fresh_write", "plain.read", "plain.scale", "plain.cards",
            "partial.psf.write", "partial.psf.kept", "partial.noise.write", "partial.noise.kept")


def _plain(content):
    """plain float ndarray without geometry (mask bits become 0./1.)"""
    a = np.asarray(content)
    return a.astype(float) if a.dtype != object else a.copy()


def _fs_paths(env, kind, names):
    """two target locations of one path kind (the second one for 'overwrite=True on an absent path'); all inside the scratch
    directory, which is also the current directory while the history runs"""
    if kind == "nested":        # absolute, three missing directory levels
        return [[env.path("n1", "n2", "n3", n) for n in names], [env.path("n1", "other", "fresh_" + n) for n in names]]
    if kind == "absdir":        # absolute, directory already exists
        return [[env.path(n) for n in names], [env.path("fresh_" + n) for n in names]]
    if kind == "reldir":        # relative path with (missing) directories, resolved against the current directory
        return [["rel/sub/" + n for n in names], ["rel2/fresh_" + n for n in names]]
    return [list(names), ["fresh_" + n for n in names]]     # bare file names in the current directory


def body_fs(inp, H, W, H2, W2, flip, writer, kind):
    """history absent -> write -> refused write -> overwrite with other content, shape and pixel scale -> overwrite of an absent
    path, for ONE writer and ONE path kind (the case list crosses all writers with all path kinds)"""
    import autoarray as aa
    from autoarray.structures.arrays import array_2d_util, array_1d_util
    s_old, s_new = [_scal(x) for x in inp["s_old"]], [_scal(x) for x in inp["s_new"]]     # (y, x) scales, or (x,) in 1D
    env = Env(flip)
    A, E = {}, {}
    try:
        if writer in ("mask2d", "mask1d"):
            old = np.array(inp["m_old"], dtype=bool).reshape(H, W)
            new = np.array(inp["m_new"], dtype=bool).reshape(H2, W2)
        else:
            old, new = _vals(inp["a"], (H, W)), _vals(inp["b"], (H2, W2))
        if writer in ("array1d", "mask1d"):
            old, new = old.reshape(-1), new.reshape(-1)
        dims = 1 if writer in ("array1d", "mask1d") else 2

        def sc(s_):
            return tuple(s_)

        names = ["data.fits", "noise.fits", "psf.fits"] if writer == "imaging" else ["x.fits"]
        first, fresh = _fs_paths(env, kind, names)

        def make(content, s_, which):
            if writer == "array2d":
                return aa.Array2D.no_mask(values=content.copy(), pixel_scales=sc(s_))
            if writer == "kernel2d":
                return aa.Kernel2D.no_mask(values=content.copy(), pixel_scales=sc(s_))
            if writer == "mask2d":
                return aa.Mask2D(mask=content.copy(), pixel_scales=sc(s_))
            if writer == "array1d":
                return aa.Array1D.no_mask(values=content.copy(), pixel_scales=sc(s_))
            if writer == "mask1d":
                return aa.Mask1D(mask=content.copy(), pixel_scales=sc(s_))
            n = _vals(inp["n_" + which], content.shape)
            k = _vals(inp["k_" + which], (3, 3))
            return aa.Imaging(data=aa.Array2D.no_mask(values=content.copy(), pixel_scales=sc(s_)),
                              noise_map=aa.Array2D.no_mask(values=n.copy(), pixel_scales=sc(s_)),
                              psf=aa.Kernel2D.no_mask(values=k.copy(), pixel_scales=sc(s_)))

        def content_of(content, which):
            """what must be read back"""
            if writer == "imaging":
                return [content, _vals(inp["n_" + which], content.shape), _vals(inp["k_" + which], (3, 3))]
            return content

        def write(obj, paths, overwrite):
            if writer == "imaging":
                return hx.attempt(lambda: obj.output_to_fits(data_path=paths[0], noise_map_path=paths[1], psf_path=paths[2], overwrite=overwrite))
            return hx.attempt(lambda: obj.output_to_fits(file_path=paths[0], overwrite=overwrite))

        def read(paths, s_):
            """(content, pixel scale found in the file's header)"""
            p0 = paths[0]
            if writer == "array2d":
                back = hx.attempt(lambda: aa.Array2D.from_fits(file_path=p0, pixel_scales=sc(s_)))
                return _nat(back), _get(back, lambda b: _hdr_scales(b.header.header_sci_obj))
            if writer == "kernel2d":
                back = hx.attempt(lambda: aa.Kernel2D.from_fits(file_path=p0, hdu=0, pixel_scales=sc(s_)))
                return _nat(back), _get(back, lambda b: _hdr_scales(b.header.header_sci_obj))
            if writer == "array1d":
                back = hx.attempt(lambda: aa.Array1D.from_fits(file_path=p0, pixel_scales=sc(s_)))
                return _nat(back), _get(back, lambda b: _hdr_scales(b.header.header_sci_obj, 1))
            if writer in ("mask2d", "mask1d"):
                cls = aa.Mask2D if writer == "mask2d" else aa.Mask1D
                back = hx.attempt(lambda: cls.from_fits(file_path=p0, pixel_scales=sc(s_)))
                return _bools(back), hx.attempt(lambda: _hdr_scales(array_2d_util.header_obj_from(file_path=p0, hdu=0), dims))
            back = hx.attempt(lambda: aa.Imaging.from_fits(pixel_scales=sc(s_), data_path=paths[0], noise_map_path=paths[1], psf_path=paths[2]))
            return (_get(back, lambda b: [np.asarray(b.data.native.array), np.asarray(b.noise_map.native.array), np.asarray(b.psf.native.array)]),
                    _get(back, lambda b: _hdr_scales(b.data.header.header_sci_obj)))

        def cards(p):
            # non-structural header keywords (astropy adds SIMPLE / BITPIX / NAXISn / EXTEND itself from the data)
            def f_():
                return ",".join(str(k) for k in env.raw(p)[1].keys()
                                if not (str(k) in ("SIMPLE", "BITPIX", "EXTEND", "PCOUNT", "GCOUNT", "XTENSION") or str(k).startswith("NAXIS")))
            return hx.attempt(f_)

        def n_hdus(p):
            def f_():
                hl = env.fits().open(p)
                try:
                    return len(hl)
                finally:
                    hl.close()
            return hx.attempt(f_)

        def history():
            o_old, o_new = make(old, s_old, "a"), make(new, s_new, "b")
            A["first.write"], E["first.write"] = write(o_old, first, False), None
            A["first.read"], A["first.scale"] = read(first, s_old)
            E["first.read"], E["first.scale"] = content_of(old, "a"), list(s_old)
            A["refused.write"], E["refused.write"] = _fails(write(o_new, first, False)), hx.Raised("OSError")
            A["refused.read"], A["refused.scale"] = read(first, s_old)
            E["refused.read"], E["refused.scale"] = content_of(old, "a"), list(s_old)
            A["overwrite.write"], E["overwrite.write"] = write(o_new, first, True), None
            A["overwrite.read"], A["overwrite.scale"] = read(first, s_new)
            E["overwrite.read"], E["overwrite.scale"] = content_of(new, "b"), list(s_new)
            A["overwrite_absent.write"], E["overwrite_absent.write"] = write(o_new, fresh, True), None
            A["overwrite_absent.read"], E["overwrite_absent.read"] = read(fresh, s_new)[0], content_of(new, "b")
            if writer == "imaging":
                # interaction of the three files: ONE pre-existing target among fresh ones must make overwrite=False fail and stay untouched
                for j, part in ((2, "psf"), (1, "noise")):
                    mixed = [fresh[i].replace("fresh_", "mixed_%s_" % part) for i in range(3)]
                    mixed[j] = first[j]
                    A["partial.%s.write" % part] = _fails(write(o_old, mixed, False))
                    E["partial.%s.write" % part] = hx.Raised("OSError")
                    back = hx.attempt(lambda: aa.Array2D.from_fits(file_path=first[j], pixel_scales=sc(s_new)))
                    A["partial.%s.kept" % part], E["partial.%s.kept" % part] = _nat(back), content_of(new, "b")[j]
                return
            # "the new content fully replaces the old": the overwritten file is what a fresh write of the new object alone gives
            # (same header cards, one HDU), whatever the path held before
            A["overwrite.cards"], E["overwrite.cards"] = cards(first[0]), cards(fresh[0])
            A["overwrite.n_hdus"], E["overwrite.n_hdus"] = n_hdus(first[0]), 1
            f = env.fits()
            pm = env.path("multi_ext.fits")
            h0 = f.Header()
            for key, val in (("PIXSCALEY", s_old[0]), ("PIXSCALEX", s_old[-1]), ("OLDCARD", 7.0)):
                h0.append((key, val, ""))
            f.HDUList([f.PrimaryHDU(_plain(old), h0), f.ImageHDU(_plain(old)), f.ImageHDU(_plain(old))]).writeto(pm)
            A["multi.write"], E["multi.write"] = write(o_new, [pm], True), None
            A["multi.read"], A["multi.scale"] = read([pm], s_new)
            E["multi.read"], E["multi.scale"] = content_of(new, "b"), list(s_new)
            A["multi.cards"], E["multi.cards"] = cards(pm), cards(fresh[0])
            A["multi.n_hdus"], E["multi.n_hdus"] = n_hdus(pm), 1
            # a plain ndarray without geometry overwrites a file written from a structure: no geometry card may survive
            util = array_2d_util.numpy_array_2d_to_fits if dims == 2 else array_1d_util.numpy_array_1d_to_fits
            via = array_2d_util.numpy_array_2d_via_fits_from if dims == 2 else array_1d_util.numpy_array_1d_via_fits_from
            kw = "array_2d" if dims == 2 else "array_1d"
            pf = fresh[0].replace("fresh_", "freshplain_")
            A["plain.write"], E["plain.write"] = hx.attempt(lambda: util(**{kw: _plain(old)}, file_path=first[0], overwrite=True)), None
            A["plain.fresh_write"], E["plain.fresh_write"] = hx.attempt(lambda: util(**{kw: _plain(old)}, file_path=pf, overwrite=True)), None
            A["plain.read"], E["plain.read"] = hx.attempt(lambda: np.asarray(via(file_path=first[0], hdu=0))), _plain(old)
            A["plain.scale"], E["plain.scale"] = hx.attempt(lambda: _hdr_scales(array_2d_util.header_obj_from(file_path=first[0], hdu=0), dims)), "no pixel scale card"
            A["plain.cards"], E["plain.cards"] = cards(first[0]), cards(pf)

        env.in_cwd(history)
    finally:
        env.close()
    return A, E


def body_hdu_index(inp, H, W, flip):
    """three structures written through their hdu_for_output into ONE multi-extension file, each read back by index"""
    import autoarray as aa
    d = _vals(inp["d"], (3, H, W))
    sc = [_scal(x) for x in inp["sc"]]
    mk = np.zeros((H, W), dtype=bool)
    mk[0, 0] = True
    mk[H - 1, W - 1] = H * W > 2
    env = Env(flip)
    A, E = {}, {}
    try:
        f = env.fits()
        objs = [aa.Array2D.no_mask(values=d[j].copy(), pixel_scales=(sc[j], sc[j])) for j in range(3)]
        hdus = [o.hdu_for_output for o in objs]
        hl = f.HDUList([hdus[0]] + [f.ImageHDU(data=h.data, header=h.header) for h in hdus[1:]])
        p = env.path("multi.fits")
        if env.sym:
            hl.writeto(p)
        else:
            os.makedirs(os.path.dirname(p), exist_ok=True)
            hl.writeto(p)
        for j in range(3):
            back = hx.attempt(lambda: aa.Array2D.from_fits(file_path=p, pixel_scales=(sc[j], sc[j]), hdu=j))
            A["arr.hdu%d.native" % j], E["arr.hdu%d.native" % j] = _nat(back), d[j]
            A["arr.hdu%d.header_hdu_scale" % j] = _get(back, lambda b: _hdr_scales(b.header.header_hdu_obj))
            E["arr.hdu%d.header_hdu_scale" % j] = [sc[j], sc[j]]
            A["arr.hdu%d.header_sci_scale" % j] = _get(back, lambda b: _hdr_scales(b.header.header_sci_obj))
            E["arr.hdu%d.header_sci_scale" % j] = [sc[0], sc[0]]
            back = hx.attempt(lambda: aa.Kernel2D.from_fits(file_path=p, pixel_scales=(sc[j], sc[j]), hdu=j))
            A["ker.hdu%d.native" % j], E["ker.hdu%d.native" % j] = _nat(back), d[j]
            A["ker.hdu%d.header_hdu_scale" % j] = _get(back, lambda b: _hdr_scales(b.header.header_hdu_obj))
            E["ker.hdu%d.header_hdu_scale" % j] = [sc[j], sc[j]]
        # masks and 1D structures in extensions
        ms = [aa.Mask2D(mask=mk if j == 1 else ~mk if j == 2 else np.zeros((H, W), dtype=bool), pixel_scales=(sc[j], sc[j])) for j in range(3)]
        mh = [x.hdu_for_output for x in ms]
        p = env.path("multimask.fits")
        f.HDUList([mh[0]] + [f.ImageHDU(data=h.data, header=h.header) for h in mh[1:]]).writeto(p)
        for j in range(3):
            back = hx.attempt(lambda: aa.Mask2D.from_fits(file_path=p, pixel_scales=(sc[j], sc[j]), hdu=j))
            A["mask.hdu%d.bools" % j], E["mask.hdu%d.bools" % j] = _bools(back), np.array(ms[j].array, dtype=bool)
        ones = [aa.Array1D.no_mask(values=d[j].reshape(-1).copy(), pixel_scales=(sc[j],)) for j in range(3)]
        oh = [hx.attempt(lambda: array_1d_hdu(o)) for o in ones]
        p = env.path("multi1d.fits")
        f.HDUList([oh[0]] + [f.ImageHDU(data=h.data, header=h.header) for h in oh[1:]]).writeto(p)
        for j in range(3):
            back = hx.attempt(lambda: aa.Array1D.from_fits(file_path=p, pixel_scales=(sc[j],), hdu=j))
            A["arr1d.hdu%d.native" % j], E["arr1d.hdu%d.native" % j] = _nat(back), d[j].reshape(-1)
            A["arr1d.hdu%d.header_hdu_scale" % j] = _get(back, lambda b: _hdr_scales(b.header.header_hdu_obj, 1))
            E["arr1d.hdu%d.header_hdu_scale" % j] = [sc[j]]
    finally:
        env.close()
    return A, E


def array_1d_hdu(o):
    """the HDU that Array1D.output_to_fits writes (array_1d_util.hdu_for_output_from; the file path never flips 1D data)"""
    from autoarray.structures.arrays import array_1d_util
    return array_1d_util.hdu_for_output_from(array_1d=np.array(o.native.array), header_dict=o.pixel_scale_header)


def body_imaging(inp, H, W, flip):
    import autoarray as aa
    d = _vals(inp["d"], (H, W))
    n = _vals(inp["n"], (H, W))
    k = _vals(inp["k"], (3, 3))
    s = _scal(inp["s"])
    env = Env(flip)
    A, E = {}, {}
    try:
        ds = aa.Imaging(
            data=aa.Array2D.no_mask(values=d.copy(), pixel_scales=(s, s)),
            noise_map=aa.Array2D.no_mask(values=n.copy(), pixel_scales=(s, s)),
            psf=aa.Kernel2D.no_mask(values=k.copy(), pixel_scales=(s, s)),
        )
        pd_, pn, pk = env.path("im", "data.fits"), env.path("im", "noise.fits"), env.path("im", "psf.fits")
        A["imaging.write"] = hx.attempt(lambda: ds.output_to_fits(data_path=pd_, psf_path=pk, noise_map_path=pn))
        E["imaging.write"] = None
        if A["imaging.write"] is None:
            back = hx.attempt(lambda: aa.Imaging.from_fits(pixel_scales=(s, s), data_path=pd_, noise_map_path=pn, psf_path=pk))
            A["imaging.data"], E["imaging.data"] = _get(back, lambda b: np.asarray(b.data.native.array)), d
            A["imaging.noise_map"], E["imaging.noise_map"] = _get(back, lambda b: np.asarray(b.noise_map.native.array)), n
            A["imaging.psf"], E["imaging.psf"] = _get(back, lambda b: np.asarray(b.psf.native.array)), k
            A["imaging.shape"], E["imaging.shape"] = _get(back, lambda b: list(b.data.shape_native)), [H, W]
            A["imaging.header_scale"] = _get(back, lambda b: _hdr_scales(b.data.header.header_sci_obj))
            E["imaging.header_scale"] = [s, s]
            A["imaging.exists_no_overwrite"] = _fails(hx.attempt(lambda: ds.output_to_fits(data_path=pd_, psf_path=pk, noise_map_path=pn)))
            E["imaging.exists_no_overwrite"] = hx.Raised("OSError")
            A["imaging.overwrite"] = hx.attempt(lambda: ds.output_to_fits(data_path=pd_, psf_path=pk, noise_map_path=pn, overwrite=True))
            E["imaging.overwrite"] = None
    finally:
        env.close()
    return A, E


# ---------------------------------------------------------------------------- cases

def _known_ids():
    return set(x for x in os.environ.get("VERIF_KNOWN", "").split(",") if x)


SCALE_KEYS_2D = ["arr.file.header_scale", "arr.file.header_hdu_scale", "arr.hdu.pixel_scales", "ker.file.header_scale", "ker.hdu.pixel_scales",
                 "mask.file.header_scale", "mask.hdu.pixel_scales"]
MASK_FAMILY = ("none", "checker", "corner", "row0", "lastcol")


def _family_mask(name, H, W):
    m = np.zeros((H, W), dtype=bool)
    if name == "checker":
        for y in range(H):
            for x in range(W):
                m[y, x] = (y + x) % 2 == 1
    elif name == "corner":
        m[H - 1, 0] = H * W > 1
    elif name == "row0":
        if H > 1:
            m[0, :] = True
    elif name == "lastcol":
        if W > 1:
            m[:, W - 1] = True
    return m


def _margin(ctx, sy, sx):
    """pixel scales are either exactly isotropic or clearly anisotropic (|sy - sx| >= 2e-8). In between the library's own isotropy test
    |sy - sx| > 1e-8 either drops the x scale by design (<= 1e-8) or sits at rounding distance of the boundary: outside the claim.
    With this, every pixel-scale obligation is an EXACT equality."""
    d = sy.t - sx.t
    ad = z3.If(d >= 0, d, -d)
    ctx.assume(z3.Or(d == 0, ad >= V.rval(2e-8)))


def case_2d(ctx, H, W, flip, masks="all", full=True):
    if masks == "all":
        mb = V.bool_array("m", (H, W))
        ctx.assume(z3.Or(*[z3.Not(b.t) for b in mb.reshape(-1)]))
        mask = ctx.concrete_bools(mb)
    else:
        mask = _family_mask(masks, H, W)
    ctx.set_case(mask=mask.tolist())
    sy, sx = V.real("sy"), V.real("sx")
    ctx.assume(z3.And(sy.t > 0, sx.t > 0))
    _margin(ctx, sy, sx)
    inputs = {"mask": mask, "v": V.real_array("v", (H, W)), "k": V.real_array("k", (H, W)), "scales": [sy, sx]}
    known = {}
    if "aniso-pixel-scale" in _known_ids():
        for key in SCALE_KEYS_2D:
            known[key] = {"aniso-pixel-scale": sy.t != sx.t}
    hx.run_body(ctx, body_2d, inputs, {"H": H, "W": W, "flip": flip, "full": full}, validate_every=16, known=known or None)


TINY = 2.0 ** -30


def _tiny_values(ctx, name, shape):
    """values 2^-30 * (n + 1/3), n a symbolic integer in [-1000, 1000]: tiny magnitude (|v| < 1e-6), both signs, and never
    representable in single precision (the float64 nearest to n + 1/3 carries the 0101.. pattern down to its last mantissa bit),
    hence r32(v) != v - stated to the solver for the uninterpreted rounding function"""
    n = V.int_array(name, shape) if hasattr(V, "int_array") else None
    if n is None:
        n = np.empty(shape, dtype=object)
        for idx in np.ndindex(*shape):
            n[idx] = V.integer("%s_%s" % (name, "_".join(map(str, idx))))
    f = ctx.uf("r32", 1)
    out = np.empty(shape, dtype=object)
    for idx in np.ndindex(*shape):
        ctx.assume(z3.And(n[idx].t >= -1000, n[idx].t <= 1000))
        t = V.rval(TINY) * (z3.ToReal(n[idx].t) + z3.RealVal("1/3"))
        ctx.assume(f(t) != t)
        out[idx] = V.SymReal(t)
    return out


def case_tiny(ctx, H, W, flip, masks="checker"):
    """small-magnitude regime of the 2D round trips (same body and obligations as case_2d; value comparison is exact)"""
    mask = _family_mask(masks, H, W)
    ctx.set_case(mask=mask.tolist())
    sy, sx = V.real("sy"), V.real("sx")
    ctx.assume(z3.And(sy.t > 0, sx.t > 0))
    _margin(ctx, sy, sx)
    ctx.assume(z3.And(sy.t <= V.rval(2.0 ** -20), sx.t <= V.rval(2.0 ** -20)))       # small-scale regime as well
    inputs = {"mask": mask, "v": _tiny_values(ctx, "nv", (H, W)), "k": _tiny_values(ctx, "nk", (H, W)), "scales": [sy, sx]}
    hx.run_body(ctx, body_2d, inputs, {"H": H, "W": W, "flip": flip, "full": False}, validate_every=1)


def case_tiny_1d(ctx, N, flip):
    mask = np.zeros(N, dtype=bool)
    mask[0] = N > 1
    ctx.set_case(mask=mask.tolist())
    s = V.real("s")
    ctx.assume(z3.And(s.t > 0, s.t <= V.rval(2.0 ** -20)))
    inputs = {"mask": mask, "v": _tiny_values(ctx, "nv", (N,)), "scale": s}
    keys = ["arr1d.file.header_scale", "arr1d.hdu.pixel_scales", "mask1d.file.header_scale", "mask1d.hdu.pixel_scales"]
    hx.run_body(ctx, body_1d, inputs, {"N": N, "flip": flip}, validate_every=1)


def case_1d(ctx, N, flip):
    mb = V.bool_array("m", (N,))
    ctx.assume(z3.Or(*[z3.Not(b.t) for b in mb.reshape(-1)]))
    mask = ctx.concrete_bools(mb)
    ctx.set_case(mask=mask.tolist())
    s = V.real("s")
    ctx.assume(s.t > 0)
    v = V.real_array("v", (N,))
    inputs = {"mask": mask, "v": v, "scale": s}
    known = {}
    if flip and "array1d-hdu-flip" in _known_ids():
        e = [z3.RealVal(0) if mask[i] else v[i].t for i in range(N)]
        known["arr1d.hdu.native"] = {"array1d-hdu-flip": z3.Or(*[e[i] != e[N - 1 - i] for i in range(N)]) if N > 1 else z3.BoolVal(False)}
    keys = ["arr1d.file.header_scale", "arr1d.hdu.pixel_scales", "mask1d.file.header_scale", "mask1d.hdu.pixel_scales"]
    hx.run_body(ctx, body_1d, inputs, {"N": N, "flip": flip}, validate_every=4, known=known or None)


def case_derived(ctx, H, W, flip, dims=2, masks="all"):
    shape = (H, W) if dims == 2 else (H * W,)
    if masks == "all":
        mb = V.bool_array("m", shape)
        ctx.assume(z3.Or(*[z3.Not(b.t) for b in mb.reshape(-1)]))
        mask = ctx.concrete_bools(mb)
    else:
        mask = _family_mask(masks, H, W).reshape(shape)
    ctx.set_case(mask=mask.tolist())
    s = V.real("s")
    ctx.assume(s.t > 0)
    inputs = {"mask": mask, "v": V.real_array("v", shape), "c": V.real("c"), "s": s}
    keys = ["%dd.sn%d.%s.hdu.pixel_scales" % (dims, sn, opn) for sn in (0, 1) for opn, _ in DERIVED_OPS]
    known = {}
    if dims == 1 and "array1d-native-unmasked" in _known_ids():
        v, c = inputs["v"], inputs["c"]
        for opn, opf in DERIVED_OPS:
            terms = [V.to_real_term(opf(v[i], c)) != 0 for i in range(shape[0]) if mask[i]]
            region = z3.Or(*terms) if terms else z3.BoolVal(False)
            for w in ("file.native", "file.stored", "hdu.native"):
                known["1d.sn1.%s.%s" % (opn, w)] = {"array1d-native-unmasked": region}
    hx.run_body(ctx, body_derived, inputs, {"H": H, "W": W, "flip": flip, "dims": dims}, validate_every=16,
                known=known or None)


def case_fs(ctx, H, W, H2, W2, flip, writer, kind):
    nsc = 1 if writer in ("array1d", "mask1d") else 2       # old and new (y, x) scales independent: iso -> aniso, aniso -> iso, ...
    s_old, s_new = [V.real("so%d" % i) for i in range(nsc)], [V.real("sn%d" % i) for i in range(nsc)]
    ctx.assume(z3.And(*[x.t > 0 for x in s_old + s_new]))
    if nsc == 2:
        _margin(ctx, *s_old)
        _margin(ctx, *s_new)
    if writer == "imaging":
        ctx.assume(z3.And(s_old[0].t == s_old[1].t, s_new[0].t == s_new[1].t))
    inputs = {"s_old": s_old, "s_new": s_new}
    if writer in ("mask2d", "mask1d"):
        inputs["m_old"] = ctx.concrete_bools(V.bool_array("mo", (H, W)))
        inputs["m_new"] = ctx.concrete_bools(V.bool_array("mn", (H2, W2)))
        ctx.set_case(m_old=inputs["m_old"].tolist(), m_new=inputs["m_new"].tolist())
    else:
        inputs["a"], inputs["b"] = V.real_array("a", (H, W)), V.real_array("b", (H2, W2))
    if writer == "imaging":
        for w, shp in (("a", (H, W)), ("b", (H2, W2))):
            n, k = V.real_array("n_" + w, shp), V.real_array("k_" + w, (3, 3))
            ctx.assume(z3.And(*[x.t > 0 for x in n.reshape(-1)]))
            ctx.assume(z3.Sum(*[x.t for x in k.reshape(-1)]) == 1)      # Imaging re-normalises its PSF by design
            inputs["n_" + w], inputs["k_" + w] = n, k
    known = {}
    if kind == "bare" and "bare-file-name" in _known_ids():
        known = {key: {"bare-file-name": z3.BoolVal(True)} for key in FS_STEPS}
    hx.run_body(ctx, body_fs, inputs, {"H": H, "W": W, "H2": H2, "W2": W2, "flip": flip, "writer": writer, "kind": kind},
                validate_every=4 if writer in ("mask2d", "mask1d") else 1, known=known or None)


def case_hdu_index(ctx, H, W, flip):
    sc = [V.real("s%d" % j) for j in range(3)]
    ctx.assume(z3.And(*[x.t > 0 for x in sc]))
    inputs = {"d": V.real_array("d", (3, H, W)), "sc": sc}
    keys = ["%s.hdu%d.%s" % (o, j, w) for o in ("arr", "ker", "arr1d") for j in range(3) for w in ("header_hdu_scale", "header_sci_scale")]
    hx.run_body(ctx, body_hdu_index, inputs, {"H": H, "W": W, "flip": flip}, validate_every=1)


def case_imaging(ctx, H, W, flip):
    s = V.real("s")
    ctx.assume(s.t > 0)
    n = V.real_array("n", (H, W))
    ctx.assume(z3.And(*[x.t > 0 for x in n.reshape(-1)]))
    k = V.real_array("k", (3, 3))
    # Imaging re-normalises its PSF by design (use_normalized_psf=True): the round trip is the identity on normalised kernels
    ctx.assume(z3.Sum(*[x.t for x in k.reshape(-1)]) == 1)
    inputs = {"d": V.real_array("d", (H, W)), "n": n, "k": k, "s": s}
    hx.run_body(ctx, body_imaging, inputs, {"H": H, "W": W, "flip": flip}, validate_every=1)


BODIES = {"case_2d": body_2d, "case_1d": body_1d, "case_fs": body_fs, "case_derived": body_derived, "case_tiny": body_2d, "case_tiny_1d": body_1d, "case_hdu_index": body_hdu_index, "case_imaging": body_imaging}


def cases(tier):
    out = []
    if tier == "quick":
        shapes = [(h, w) for h in range(1, 4) for w in range(1, 4)] + [(1, 4), (4, 1), (2, 4), (4, 2), (3, 4), (4, 3)]
        cap_all, n1 = 9, 5
    else:
        shapes = [(h, w) for h in range(1, 9) for w in range(1, 9) if h * w <= 12]
        cap_all, n1 = 12, 10
    for (H, W) in shapes:
        for flip in (False, True):
            n = H * W
            if n <= cap_all:
                out.append(("case_2d", {"H": H, "W": W, "flip": flip, "masks": "all", "full": n <= 9},
                            {"split": 0 if n < 8 else (3 if n <= 9 else 5)}))
            else:
                for fam in MASK_FAMILY:
                    out.append(("case_2d", {"H": H, "W": W, "flip": flip, "masks": fam, "full": True}))
    for N in range(1, n1 + 1):
        for flip in (False, True):
            out.append(("case_1d", {"N": N, "flip": flip}))
            out.append(("case_derived", {"H": 1, "W": N, "flip": flip, "dims": 1, "masks": "all"}))
    cap_d = 6 if tier == "quick" else 12
    for (H, W) in shapes:
        for flip in (False, True):
            if H * W <= cap_d and (tier == "quick" or (H <= 6 and W <= 6) or H * W <= 9):
                out.append(("case_derived", {"H": H, "W": W, "flip": flip, "dims": 2, "masks": "all"},
                            {"split": 0 if H * W < 8 else (3 if H * W <= 9 else 5)}))
            elif H * W <= 12 and H <= 4 and W <= 4:
                for fam in MASK_FAMILY[1:]:
                    out.append(("case_derived", {"H": H, "W": W, "flip": flip, "dims": 2, "masks": fam}))
    if tier != "quick":
        # larger shapes with the mask family (every route and option of case_2d / case_derived / case_tiny)
        big = [(4, 4), (3, 5), (5, 3), (4, 5), (5, 4), (5, 5), (2, 7), (7, 2), (1, 9), (9, 1), (3, 6), (6, 3), (6, 6), (2, 8), (8, 2)]
        for (H, W) in big:
            for flip in (False, True):
                for fam in MASK_FAMILY:
                    out.append(("case_2d", {"H": H, "W": W, "flip": flip, "masks": fam, "full": True}))
                    if fam != "none":
                        out.append(("case_derived", {"H": H, "W": W, "flip": flip, "dims": 2, "masks": fam}))
        for flip in (False, True):
            for (H, W) in ((1, 1), (2, 2), (3, 3), (3, 4), (4, 3), (4, 4), (1, 5), (5, 1)):
                for fam in ("none", "checker", "corner"):
                    out.append(("case_tiny", {"H": H, "W": W, "flip": flip, "masks": fam}))
            for N in (1, 2, 5, 8):
                out.append(("case_tiny_1d", {"N": N, "flip": flip}))
            for (H, W) in ((1, 1), (2, 2), (3, 3), (3, 4), (4, 3), (4, 4), (1, 5), (5, 1)):
                out.append(("case_hdu_index", {"H": H, "W": W, "flip": flip}))
            for (H, W) in ((4, 3), (4, 4), (3, 5), (5, 5), (6, 6)):
                out.append(("case_imaging", {"H": H, "W": W, "flip": flip}))
            for kind in FS_KINDS:
                for (H, W, H2, W2) in ((3, 3, 1, 1), (1, 1, 3, 4), (4, 1, 1, 4), (3, 4, 4, 3)):
                    for writer in ("array2d", "kernel2d", "array1d"):
                        out.append(("case_fs", {"H": H, "W": W, "H2": H2, "W2": W2, "flip": flip, "writer": writer, "kind": kind}))
                for (H, W, H2, W2) in ((2, 2, 2, 2), (1, 4, 2, 1)):
                    for writer in ("mask2d", "mask1d"):
                        out.append(("case_fs", {"H": H, "W": W, "H2": H2, "W2": W2, "flip": flip, "writer": writer, "kind": kind}, {"split": 3}))
                for (H, W, H2, W2) in ((4, 4, 3, 3), (3, 4, 5, 5)):
                    out.append(("case_fs", {"H": H, "W": W, "H2": H2, "W2": W2, "flip": flip, "writer": "imaging", "kind": kind}))
    for flip in (False, True):
        for (H, W, fam) in ((2, 3, "checker"), (3, 2, "none"), (1, 3, "corner"), (3, 1, "none")) + (((3, 4, "checker"),) if tier != "quick" else ()):
            out.append(("case_tiny", {"H": H, "W": W, "flip": flip, "masks": fam}))
        out.append(("case_tiny_1d", {"N": 3, "flip": flip}))
        for writer in FS_WRITERS:
            for kind in FS_KINDS:
                if writer in ("mask2d", "mask1d"):      # old and new mask bits forked
                    shp = [(1, 3, 2, 1)] if tier == "quick" else [(1, 3, 2, 2), (2, 2, 1, 3)]
                elif writer == "imaging":
                    shp = [(3, 3, 3, 4)]
                else:
                    shp = [(2, 3, 3, 2)] if tier == "quick" else [(2, 3, 3, 2), (1, 3, 2, 2), (3, 1, 1, 1)]
                for (H, W, H2, W2) in shp:
                    out.append(("case_fs", {"H": H, "W": W, "H2": H2, "W2": W2, "flip": flip, "writer": writer, "kind": kind}))
        for (H, W) in ((2, 3), (3, 2), (1, 3), (3, 1)):
            out.append(("case_hdu_index", {"H": H, "W": W, "flip": flip}))
        for (H, W) in ((3, 3),) if tier == "quick" else ((3, 3), (3, 4)):
            out.append(("case_imaging", {"H": H, "W": W, "flip": flip}))
    out.sort(key=lambda c: -(2 ** (c[1]["H"] * c[1]["W"]) if c[1].get("masks") == "all" else 1))
    return out


def _is_scale_key(key):
    return key.endswith("scale") or key.endswith("pixel_scales")


def _rel_equal(a, e, rtol):
    try:
        fa = np.asarray(shim.normalise(hx.unwrap(a)), dtype=float).reshape(-1)
        fe = np.asarray(shim.normalise(hx.unwrap(e)), dtype=float).reshape(-1)
    except (TypeError, ValueError):
        return hx.concrete_equal(a, e, 0.0)
    return fa.shape == fe.shape and bool(np.all(np.abs(fa - fe) <= rtol * np.abs(fe)))


def replay(cand):
    """real astropy, real temporary directory, untouched repository code; only the reported obligation decides.
    'identical native values': pixel values are compared exactly (they are only copied / reordered / multiplied by 0 or 1);
    'the same pixel scale': relative to its magnitude (astropy's cards carry 16 significant digits); the re-normalised Imaging PSF 1e-7."""
    cand = dict(cand)
    cand["case_kwargs"] = {k: v for k, v in cand["case_kwargs"].items() if k != "masks"}   # bodies receive the mask itself
    key = cand["obligation"]
    if _is_scale_key(key):
        actual, expected = BODIES[cand["case_fn"]](hx.to_float_struct(cand["case"]), **cand["case_kwargs"])
        if key in expected and (key not in actual or not _rel_equal(actual[key], expected[key], SCALE_REL_TOL)):
            return True, "outputs differ from the reference on the real code: [%r]; %s: actual=%s expected=%s" % (
                key, key, hx._short(actual.get(key)), hx._short(expected[key]))
        return False, "real code agrees with the reference on this input (%s)" % key
    exact = key.endswith((".native", ".stored")) or (key.endswith(".read") and cand["case_kwargs"].get("writer") != "imaging")
    return hx.replay_body(BODIES[cand["case_fn"]], cand, key=key, tol=0.0 if exact else 1e-7)
