"""C14 - resize, pad and trim keep data centred and attached to its coordinates; zoom keeps every unmasked pixel."""
import os

import numpy as np
import z3

from symx import hx, shim, values as V

PROPERTY = "C14"
FUNCTIONS = [
    "autoarray.structures.arrays.array_2d_util.resized_array_2d_from",
    "autoarray.structures.arrays.array_2d_util.extracted_array_2d_from",
    "autoarray.structures.arrays.array_2d_util.convert_array_2d",
    "autoarray.structures.arrays.uniform_2d.AbstractArray2D.resized_from",
    "autoarray.structures.arrays.uniform_2d.AbstractArray2D.padded_before_convolution_from",
    "autoarray.structures.arrays.uniform_2d.AbstractArray2D.trimmed_after_convolution_from",
    "autoarray.structures.arrays.uniform_2d.AbstractArray2D.zoomed_around_mask",
    "autoarray.mask.mask_2d.Mask2D.resized_from",
    "autoarray.mask.mask_2d.Mask2D.zoom_region",
    "autoarray.mask.mask_2d.Mask2D.trimmed_array_from",
    "autoarray.dataset.imaging.dataset.Imaging.__init__",
    "autoarray.dataset.imaging.dataset.Imaging.apply_mask",
    "autoarray.dataset.abstract.dataset.AbstractDataset.trimmed_after_convolution_from",
    "autoarray.structures.grids.uniform_2d.Grid2D.from_mask",
    "autoarray.structures.grids.grid_2d_util.grid_2d_slim_via_mask_from",
]
BOUNDS = {
    "quick": "SYMBOLIC (solver variables): every array / data / noise value, the pad value (kernel: any real; classes: any real, masked iff != 0), "
             "mask bits of the kernel-level run (all masks of a shape in one query), origin and pixel scales (> 0) of every class-level case. "
             "ENUMERATED: input shapes 1..5 x 1..5, target shapes 1..6 x 1..6 (all 900 pairs, every parity combination) for resized_array_2d_from and "
             "Array2D.resized_from on unmasked input, incl. grow-then-shrink for every target >= input; extraction windows y0,x0 >= -2, y1,x1 <= size+2 of shapes <= 4x4; "
             "Mask2D.resized_from / masked Array2D.resized_from: every mask (forked) of shapes with <= 6 pixels (sides <= 5) x targets 1..5 x 1..5; "
             "pad/trim: input shapes 1..5 x 1..5 (unmasked) and every mask of shapes with <= 6 pixels, odd kernels (1,1),(1,3),(3,1),(3,3),(1,5),(5,1),(3,5),(5,3),(5,5); "
             "Mask2D.trimmed_array_from: padded frames 1..5 x 1..5, every image_shape <= frame; "
             "Imaging.apply_mask: every mask (>= 1 unmasked pixel) of shapes with <= 8 pixels plus 3x3, odd PSF shapes (1,1),(1,3),(3,1),(3,3),(3,5),(5,3), and for PSF (1,1),(3,3) "
             "also on a dataset that was already masked by a first apply_mask (first mask hides only the first unmasked pixel of the mask / everything but its last one); "
             "zoom: every mask (>= 1 unmasked pixel) of shapes with <= 9 pixels (sides <= 6) plus 2x5, 5x2, buffers 0,1,2; "
             "zoom histories (zoom + read every zoom quantity, flip ONE pixel of the same Mask2D object in place, zoom again): every mask of shapes with <= 6 pixels "
             "x every pixel, buffers 0,1",
    "thorough": "same obligations and symbolic inputs as quick; ENUMERATED: input shapes 1..7 x 1..7, target shapes 1..10 x 1..10 (4900 pairs) for resized_array_2d_from and "
                "Array2D.resized_from on unmasked input incl. grow-then-shrink; extraction windows with margin 3 on shapes <= 6x6; Mask2D.trimmed_array_from on frames 1..7 x 1..7, "
                "every image_shape <= frame; pad/trim on unmasked inputs 1..7 x 1..7 with every odd kernel shape with axes in {1,3,5,7} (16 shapes); "
                "Mask2D.resized_from / masked Array2D.resized_from and pad/trim (odd kernels up to (5,5)): every mask (forked) of shapes with <= 8 pixels (sides <= 7) plus 3x3, 2x5, 5x2 "
                "x targets 1..6 x 1..6; Imaging.apply_mask: every mask (>= 1 unmasked pixel) of shapes with <= 9 pixels (sides <= 5) plus 2x5, 5x2, 3x4, 4x3, the 9 odd PSF shapes up to (5,5), incl. the two apply_mask-twice histories for PSF (1,1),(3,3); "
                "zoom: every mask of shapes with <= 9 pixels (sides <= 6) plus 2x5, 5x2, 3x4, 4x3, 2x6, 6x2 with buffers 0..3, and every mask of 3x5, 5x3 (32767 each) with buffers 0..2; "
                "zoom histories: one in-place single-pixel edit between two zooms on every mask of shapes with <= 9 pixels (sides <= 7) plus 2x5, 5x2 x every pixel, and three-step "
                "histories (zoom, edit, zoom, edit, zoom: every ordered pair of pixels) on every mask of shapes with <= 6 pixels; buffers 0,1",
}
OUTSIDE = [
    "shapes beyond the enumerated bounds; kernels with an axis longer than 5 (quick; thorough: longer than 7 on unmasked inputs, 5 otherwise)",
    "even kernel axes (padding by k-1 then changes the parity; the property quantifies over odd kernels only)",
    "which of the two admissible centres is used when the parity of an axis changes (docstring and code disagree; any offset o with |o-(Hin-Hout)/2| <= 1/2 is accepted, "
    "but array values and mask must use the same one)",
    "values written outside the frame by the zoom window (only in-frame pixels of the window are compared) and the origin of the zoomed array (C12)",
    "float64 rounding of the coordinates (exact real arithmetic in the solver; replay in float64 with 1e-7 tolerance)",
]
STUBS = []
ASSUMPTIONS = [
    "pixel scales > 0; noise-map values > 0 (Imaging raises otherwise)",
    "the existential 'there is one offset per axis' is discharged by a witness: the offset is read off a concrete run of the same entry point on an "
    "index-labelled array, restricted to the admissible candidates {floor(d/2), ceil(d/2)}, d = size_in - size_out; the solver then decides "
    "'out == window(in, witness)' for all values",
    "masks of class-level cases are explored by forking (one path per mask)",
    "histories are bounded to one (thorough: also two) in-place single-pixel edits (Mask2D.__setitem__), each between two zoom reads",
]
EXPLORER_OPTS = {"timeout_ms": 20000, "max_paths": 200000, "max_decisions": 50000}
BUDGET_S = {"quick": 900, "thorough": 3000}


class PadReal(V.SymReal):
    """symbolic pad value whose truth value (`.astype(bool)` of the resized mask calls bool() once per padded cell) is decided
    once per path and then reused - the later decisions are implied by the first one, this only saves the solver calls"""
    __slots__ = ("_truth",)

    def __bool__(self):
        try:
            return self._truth
        except AttributeError:
            self._truth = bool(self != 0)
            return self._truth


def pad_real(name):
    return PadReal(z3.Real(name))


_OFFSET_CACHE = {}

ODD_KERNELS = [(1, 1), (1, 3), (3, 1), (3, 3), (1, 5), (5, 1), (3, 5), (5, 3), (5, 5)]


# ------------------------------------------------------------------------------------------- reference

def cand(n_in, n_out):
    """admissible offsets o (out[r] = in[r + o]): |o - (n_in - n_out)/2| <= 1/2"""
    d = n_in - n_out
    return [d // 2] if d % 2 == 0 else [d // 2, d // 2 + 1]


def window(a, oy, ox, Ho, Wo, pad):
    """out[r, c] = a[r + oy, c + ox] inside the frame of `a`, `pad` elsewhere"""
    a = np.asarray(a)
    out = np.empty((Ho, Wo), dtype=object)
    for r in range(Ho):
        for c in range(Wo):
            y, x = r + oy, c + ox
            out[r, c] = a[y, x] if (0 <= y < a.shape[0] and 0 <= x < a.shape[1]) else pad
    return out


def bool_window(mask, oy, ox, Ho, Wo, pad):
    return np.array(window(np.asarray(mask, dtype=bool), oy, ox, Ho, Wo, bool(pad)).tolist(), dtype=bool).reshape(Ho, Wo)


def centre_y(oy, H, i, sy):
    return oy + ((H - 1) / 2.0 - i) * sy


def centre_x(ox, W, j, sx):
    return ox + (j - (W - 1) / 2.0) * sx


def labelled(H, W):
    return np.arange(H * W, dtype=float).reshape(H, W) + 1.0


def read_offset(out, Hin, Win, cy, cx):
    """witness for the existential offset: position of the first labelled input pixel found in `out`;
    falls back to the first admissible candidate (the symbolic obligation then fails if no candidate fits)"""
    try:
        o = np.asarray(shim.normalise(hx.unwrap(out)), dtype=float)
        for r in range(o.shape[0]):
            for c in range(o.shape[1]):
                lab = o[r, c]
                if lab >= 1 and lab == int(lab) and lab <= Hin * Win:
                    y, x = divmod(int(lab) - 1, Win)
                    if (y - r) in cy and (x - c) in cx:
                        return y - r, x - c
                    return cy[0], cx[0]
    except Exception:  # noqa
        pass
    return cy[0], cx[0]


def masked_zero(v, mask):
    v = np.asarray(v)
    out = np.empty(v.shape, dtype=object)
    for idx in np.ndindex(*v.shape):
        out[idx] = 0.0 if mask[idx] else v[idx]
    return out


def _nat(o):
    return o if isinstance(o, hx.Raised) else hx.attempt(lambda: o.native.array)


def _mask_of(o):
    return o if isinstance(o, hx.Raised) else hx.attempt(lambda: np.array(o.mask.array, dtype=bool))


def _pairs(o, extra=()):
    """(y, x, value, ...) rows of the unmasked pixels of a structure, slim order, coordinates from Grid2D.from_mask"""
    import autoarray as aa
    if isinstance(o, hx.Raised):
        return o

    def f():
        g = np.asarray(hx.unwrap(aa.Grid2D.from_mask(mask=o.mask).slim.array)).reshape(-1, 2)
        cols = [np.asarray(hx.unwrap(o.slim.array)).reshape(-1, 1)] + [np.asarray(hx.unwrap(e.slim.array)).reshape(-1, 1) for e in extra]
        out = np.empty((g.shape[0], 2 + len(cols)), dtype=object)
        out[:, :2] = g
        for k, c in enumerate(cols):
            out[:, 2 + k] = c[:, 0]
        return out

    return hx.attempt(f)


def ref_pairs(emask, geo, value_cols):
    """expected rows: for every unmasked pixel (r, c) of the output mask (row-major) the centre of INPUT pixel (r+o) in the
    input geometry and the value(s) expected there.  geo = (oy, ox, sy, sx, Hin, Win, off_y, off_x)"""
    oy, ox, sy, sx, Hin, Win, fy, fx = geo
    rows = []
    for r in range(emask.shape[0]):
        for c in range(emask.shape[1]):
            if not emask[r, c]:
                rows.append([centre_y(oy, Hin, r + fy, sy), centre_x(ox, Win, c + fx, sx)] + [col[r, c] for col in value_cols])
    out = np.empty((len(rows), 2 + len(value_cols)), dtype=object)
    for k, row in enumerate(rows):
        for j, e in enumerate(row):
            out[k, j] = e
    return out


# ------------------------------------------------------------------------------------------- kernel level

def body_kernel(inp, H, W, targets):
    """resized_array_2d_from on real values and on (symbolic) mask bits: centred window, pad value elsewhere, same offset"""
    from autoarray.structures.arrays import array_2d_util as u
    v = np.asarray(inp["v"]).reshape(H, W)
    b = np.asarray(inp["b"]).reshape(H, W)
    p, pb = inp["p"], inp["pb"]
    A, E = {}, {}
    for (Ho, Wo) in targets:
        tag = "%dx%d->%dx%d:" % (H, W, Ho, Wo)
        probe = hx.attempt(u.resized_array_2d_from, array_2d=labelled(H, W), resized_shape=(Ho, Wo), pad_value=-1.0)
        fy, fx = read_offset(probe, H, W, cand(H, Ho), cand(W, Wo))
        A[tag + "values"] = hx.attempt(u.resized_array_2d_from, array_2d=v, resized_shape=(Ho, Wo), pad_value=p)
        E[tag + "values"] = window(v, fy, fx, Ho, Wo, p)
        A[tag + "mask_bits_same_offset"] = hx.attempt(u.resized_array_2d_from, array_2d=b, resized_shape=(Ho, Wo), pad_value=pb)
        E[tag + "mask_bits_same_offset"] = window(b, fy, fx, Ho, Wo, pb)
        if Ho >= H and Wo >= W and not isinstance(A[tag + "values"], hx.Raised):
            A[tag + "grow_shrink"] = hx.attempt(u.resized_array_2d_from, array_2d=A[tag + "values"], resized_shape=(H, W), pad_value=p)
            E[tag + "grow_shrink"] = v
    return A, E


def case_kernel(ctx, H, W, targets):
    inputs = {"v": V.real_array("v", (H, W)), "b": V.bool_array("b", (H, W)), "p": pad_real("p"), "pb": V.boolean("pb")}
    hx.run_body(ctx, body_kernel, inputs, {"H": H, "W": W, "targets": targets}, validate_every=1)


def body_extract(inp, H, W, margin):
    """extracted_array_2d_from(y0, y1, x0, x1) = a[y0:y1, x0:x1] with zeros outside the frame"""
    from autoarray.structures.arrays import array_2d_util as u
    v = np.asarray(inp["v"]).reshape(H, W)
    A, E = {}, {}
    for y0 in range(-margin, H):
        for y1 in range(max(y0 + 1, 1), H + margin + 1):
            for x0 in range(-margin, W):
                for x1 in range(max(x0 + 1, 1), W + margin + 1):
                    key = "extract[%d:%d,%d:%d]" % (y0, y1, x0, x1)
                    A[key] = hx.attempt(u.extracted_array_2d_from, array_2d=v, y0=y0, y1=y1, x0=x0, x1=x1)
                    E[key] = window(v, y0, x0, y1 - y0, x1 - x0, 0.0)
    return A, E


def case_extract(ctx, H, W, margin):
    hx.run_body(ctx, body_extract, {"v": V.real_array("v", (H, W))}, {"H": H, "W": W, "margin": margin}, validate_every=1)


# ------------------------------------------------------------------------------------------- Array2D / Mask2D resize

def _resize_obligations(A, E, tag, arr, m, mask, v, geo0, Ho, Wo, p, pad_b, fy, fx, grow_shrink=True):
    """obligations for arr.resized_from((Ho, Wo), mask_pad_value=p) with witness offset (fy, fx)"""
    oy, ox, sy, sx, H, W = geo0
    res = hx.attempt(lambda: arr.resized_from(new_shape=(Ho, Wo), mask_pad_value=p))
    emask = bool_window(mask, fy, fx, Ho, Wo, pad_b)
    vin = masked_zero(v, mask)
    enat = masked_zero(window(vin, fy, fx, Ho, Wo, 0.0), emask)
    A[tag + "array.mask"] = _mask_of(res)
    E[tag + "array.mask"] = emask
    A[tag + "array.native"] = _nat(res)
    E[tag + "array.native"] = enat
    if m is not None:
        mres = hx.attempt(lambda: m.resized_from(new_shape=(Ho, Wo), pad_value=p))
        A[tag + "mask.resized"] = mres if isinstance(mres, hx.Raised) else np.array(mres.array, dtype=bool)
        E[tag + "mask.resized"] = emask
    parity_kept = (H - Ho) % 2 == 0 and (W - Wo) % 2 == 0
    if parity_kept and not emask.all():
        # every surviving pixel keeps (scaled coordinate, value): coordinates of the OUTPUT structure (Grid2D.from_mask of its mask)
        # against the pixel-centre formula of the INPUT geometry at the source pixel
        A[tag + "array.(coordinate,value)"] = _pairs(res)
        E[tag + "array.(coordinate,value)"] = ref_pairs(emask, (oy, ox, sy, sx, H, W, fy, fx), [enat])
        if m is not None and not isinstance(mres, hx.Raised):
            import autoarray as aa
            A[tag + "mask.coordinates"] = hx.attempt(lambda: aa.Grid2D.from_mask(mask=mres).slim.array)
            E[tag + "mask.coordinates"] = ref_pairs(emask, (oy, ox, sy, sx, H, W, fy, fx), [])
    if grow_shrink and Ho >= H and Wo >= W and not isinstance(res, hx.Raised):
        back = hx.attempt(lambda: res.resized_from(new_shape=(H, W), mask_pad_value=p))
        A[tag + "grow_shrink.native"] = _nat(back)
        E[tag + "grow_shrink.native"] = vin
        A[tag + "grow_shrink.mask"] = _mask_of(back)
        E[tag + "grow_shrink.mask"] = np.array(mask, dtype=bool)
        if not np.all(mask):
            A[tag + "grow_shrink.(coordinate,value)"] = _pairs(back)
            E[tag + "grow_shrink.(coordinate,value)"] = ref_pairs(np.array(mask, dtype=bool), (oy, ox, sy, sx, H, W, 0, 0), [vin])


def _class_offset(H, W, Ho, Wo):
    import autoarray as aa
    key = (H, W, Ho, Wo, shim.ENABLED[0])
    if key in _OFFSET_CACHE:
        return _OFFSET_CACHE[key]
    _OFFSET_CACHE[key] = r = _class_offset_uncached(H, W, Ho, Wo)
    return r


def _class_offset_uncached(H, W, Ho, Wo):
    import autoarray as aa
    probe = hx.attempt(lambda: aa.Array2D.no_mask(values=labelled(H, W), pixel_scales=1.0).resized_from(new_shape=(Ho, Wo)).native.array)
    return read_offset(probe, H, W, cand(H, Ho), cand(W, Wo))


def body_array_resize(inp, H, W, targets, store_native=False):
    """Array2D.resized_from on an unmasked array, every target shape"""
    import autoarray as aa
    v = np.asarray(inp["v"]).reshape(H, W)
    oy, ox = inp["origin"]
    sy, sx = inp["scales"]
    p = inp["p"]
    pad_b = bool(p != 0)
    mask = np.full((H, W), False)
    m0 = aa.Mask2D.all_false(shape_native=(H, W), pixel_scales=(sy, sx), origin=(oy, ox))
    arr = aa.Array2D(values=v, mask=m0, store_native=store_native)
    A, E = {}, {}
    for (Ho, Wo) in targets:
        tag = "%dx%d->%dx%d:" % (H, W, Ho, Wo)
        fy, fx = _class_offset(H, W, Ho, Wo)
        _resize_obligations(A, E, tag, arr, None, mask, v, (oy, ox, sy, sx, H, W), Ho, Wo, p, pad_b, fy, fx)
    return A, E


def _geometry_inputs(ctx):
    sy, sx = V.real("sy"), V.real("sx")
    ctx.assume(z3.And(sy.t > 0, sx.t > 0))
    return {"origin": [V.real("oy"), V.real("ox")], "scales": [sy, sx]}


def case_array_resize(ctx, H, W, targets, store_native=False):
    inputs = {"v": V.real_array("v", (H, W)), "p": pad_real("p")}
    inputs.update(_geometry_inputs(ctx))
    hx.run_body(ctx, body_array_resize, inputs, {"H": H, "W": W, "targets": targets, "store_native": store_native}, validate_every=1)


def _fork_mask(ctx, H, W, need_unmasked=True):
    m = V.bool_array("m", (H, W))
    if need_unmasked:
        ctx.assume(z3.Or(*[z3.Not(b.t) for b in m.reshape(-1)]))
    mask = ctx.concrete_bools(m)
    ctx.set_case(mask=mask.tolist())
    return mask


def body_masked_resize(inp, H, W, targets):
    """Mask2D.resized_from and Array2D(values, mask).resized_from for a given mask: same window for values and mask"""
    import autoarray as aa
    mask = np.array(inp["mask"], dtype=bool).reshape(H, W)
    v = np.asarray(inp["v"]).reshape(H, W)
    oy, ox = inp["origin"]
    sy, sx = inp["scales"]
    p = inp["p"]
    pad_b = bool(p != 0)
    m = aa.Mask2D(mask=mask, pixel_scales=(sy, sx), origin=(oy, ox))
    arr = aa.Array2D(values=v, mask=m)
    A, E = {}, {}
    for (Ho, Wo) in targets:
        tag = "%dx%d->%dx%d:" % (H, W, Ho, Wo)
        fy, fx = _class_offset(H, W, Ho, Wo)
        _resize_obligations(A, E, tag, arr, m, mask, v, (oy, ox, sy, sx, H, W), Ho, Wo, p, pad_b, fy, fx)
    return A, E


def case_masked_resize(ctx, H, W, targets):
    mask = _fork_mask(ctx, H, W)
    inputs = {"mask": mask, "v": V.real_array("v", (H, W)), "p": pad_real("p")}
    inputs.update(_geometry_inputs(ctx))
    hx.run_body(ctx, body_masked_resize, inputs, {"H": H, "W": W, "targets": targets}, validate_every=16)


# ------------------------------------------------------------------------------------------- pad / trim for odd kernels

def body_pad_trim(inp, H, W, kernels):
    import autoarray as aa
    mask = np.array(inp["mask"], dtype=bool).reshape(H, W)
    v = np.asarray(inp["v"]).reshape(H, W)
    oy, ox = inp["origin"]
    sy, sx = inp["scales"]
    p = inp["p"]
    pad_b = bool(p != 0)
    m = aa.Mask2D(mask=mask, pixel_scales=(sy, sx), origin=(oy, ox))
    arr = aa.Array2D(values=v, mask=m)
    vin = masked_zero(v, mask)
    has = not mask.all()
    A, E = {}, {}
    for (ky, kx) in kernels:
        tag = "%dx%d,k=%dx%d:" % (H, W, ky, kx)
        cy, cx = (ky - 1) // 2, (kx - 1) // 2
        Hp, Wp = H + ky - 1, W + kx - 1
        padded = hx.attempt(lambda: arr.padded_before_convolution_from(kernel_shape=(ky, kx), mask_pad_value=p))
        emask = bool_window(mask, -cy, -cx, Hp, Wp, pad_b)
        enat = masked_zero(window(vin, -cy, -cx, Hp, Wp, 0.0), emask)
        A[tag + "padded.mask"] = _mask_of(padded)
        E[tag + "padded.mask"] = emask
        A[tag + "padded.native"] = _nat(padded)
        E[tag + "padded.native"] = enat
        if not emask.all():
            A[tag + "padded.(coordinate,value)"] = _pairs(padded)
            E[tag + "padded.(coordinate,value)"] = ref_pairs(emask, (oy, ox, sy, sx, H, W, -cy, -cx), [enat])
        if not isinstance(padded, hx.Raised):
            back = hx.attempt(lambda: padded.trimmed_after_convolution_from(kernel_shape=(ky, kx)))
            A[tag + "pad_trim.native"] = _nat(back)
            E[tag + "pad_trim.native"] = vin
            A[tag + "pad_trim.mask"] = _mask_of(back)
            E[tag + "pad_trim.mask"] = mask
            if has:
                A[tag + "pad_trim.(coordinate,value)"] = _pairs(back)
                E[tag + "pad_trim.(coordinate,value)"] = ref_pairs(mask, (oy, ox, sy, sx, H, W, 0, 0), [vin])
            # Mask2D.trimmed_array_from: padded mask + padded array -> the original frame (an unmasked Array2D)
            t2 = hx.attempt(lambda: padded.mask.trimmed_array_from(padded_array=padded, image_shape=(H, W)))
            A[tag + "mask.trimmed_array_from.native"] = _nat(t2)
            E[tag + "mask.trimmed_array_from.native"] = vin
            A[tag + "mask.trimmed_array_from.(coordinate,value)"] = _pairs(t2)
            E[tag + "mask.trimmed_array_from.(coordinate,value)"] = ref_pairs(np.full((H, W), False), (oy, ox, sy, sx, H, W, 0, 0), [vin])
        # trimming on its own: the centred crop that removes (k-1)/2 pixels from each side
        if H > 2 * cy and W > 2 * cx:
            Ht, Wt = H - 2 * cy, W - 2 * cx
            tr = hx.attempt(lambda: arr.trimmed_after_convolution_from(kernel_shape=(ky, kx)))
            tmask = bool_window(mask, cy, cx, Ht, Wt, False)
            tnat = window(vin, cy, cx, Ht, Wt, 0.0)
            A[tag + "trimmed.native"] = _nat(tr)
            E[tag + "trimmed.native"] = tnat
            A[tag + "trimmed.mask"] = _mask_of(tr)
            E[tag + "trimmed.mask"] = tmask
            if not tmask.all():
                A[tag + "trimmed.(coordinate,value)"] = _pairs(tr)
                E[tag + "trimmed.(coordinate,value)"] = ref_pairs(tmask, (oy, ox, sy, sx, H, W, cy, cx), [tnat])
    return A, E


def case_pad_trim(ctx, H, W, kernels, all_masks=False):
    if all_masks:
        mask = _fork_mask(ctx, H, W)
    else:
        mask = np.full((H, W), False)
    inputs = {"mask": mask, "v": V.real_array("v", (H, W)), "p": pad_real("p")}
    inputs.update(_geometry_inputs(ctx))
    hx.run_body(ctx, body_pad_trim, inputs, {"H": H, "W": W, "kernels": kernels}, validate_every=16 if all_masks else 1)


# ------------------------------------------------------------------------------------------- Mask2D.trimmed_array_from, every shape pair

FINDING_TRIM = "trimmed-array-from-odd-difference"


def body_mask_trim(inp, Hp, Wp):
    """padded_mask.trimmed_array_from(padded_array, image_shape) = centred crop of the padded frame to image_shape"""
    import autoarray as aa
    v = np.asarray(inp["v"]).reshape(Hp, Wp)
    oy, ox = inp["origin"]
    sy, sx = inp["scales"]
    pm = aa.Mask2D.all_false(shape_native=(Hp, Wp), pixel_scales=(sy, sx), origin=(oy, ox))
    parr = aa.Array2D(values=v, mask=pm)
    pm1 = aa.Mask2D.all_false(shape_native=(Hp, Wp), pixel_scales=1.0)
    lab = aa.Array2D(values=labelled(Hp, Wp), mask=pm1)
    A, E = {}, {}
    for H in range(1, Hp + 1):
        for W in range(1, Wp + 1):
            tag = "%dx%d->%dx%d:" % (Hp, Wp, H, W)
            probe = hx.attempt(lambda: pm1.trimmed_array_from(padded_array=lab, image_shape=(H, W)).native.array)
            fy, fx = read_offset(probe, Hp, Wp, cand(Hp, H), cand(Wp, W))
            t = hx.attempt(lambda: pm.trimmed_array_from(padded_array=parr, image_shape=(H, W)))
            A[tag + "trimmed_array_from.native"] = _nat(t)
            E[tag + "trimmed_array_from.native"] = window(v, fy, fx, H, W, 0.0)
            if (Hp - H) % 2 == 0 and (Wp - W) % 2 == 0:
                A[tag + "trimmed_array_from.(coordinate,value)"] = _pairs(t)
                E[tag + "trimmed_array_from.(coordinate,value)"] = ref_pairs(
                    np.full((H, W), False), (oy, ox, sy, sx, Hp, Wp, fy, fx), [window(v, fy, fx, H, W, 0.0)])
    return A, E


def case_mask_trim(ctx, Hp, Wp):
    inputs = {"v": V.real_array("v", (Hp, Wp))}
    inputs.update(_geometry_inputs(ctx))
    known = None
    if FINDING_TRIM in os.environ.get("VERIF_KNOWN", "").split(","):
        known = {}
        for H in range(1, Hp + 1):
            for W in range(1, Wp + 1):
                if (Hp - H) % 2 or (Wp - W) % 2:
                    # region of the recorded finding: the size difference of some axis is odd (shapes are enumerated: concrete per obligation)
                    known["%dx%d->%dx%d:trimmed_array_from.native" % (Hp, Wp, H, W)] = {FINDING_TRIM: z3.BoolVal(True)}
    hx.run_body(ctx, body_mask_trim, inputs, {"Hp": Hp, "Wp": Wp}, validate_every=1, known=known)


# ------------------------------------------------------------------------------------------- Imaging.apply_mask

def body_imaging(inp, H, W, kernels):
    """(coordinate, data, noise) triples of the unmasked pixels are unchanged by apply_mask, padded or not"""
    import autoarray as aa
    mask = np.array(inp["mask"], dtype=bool).reshape(H, W)
    v = np.asarray(inp["v"]).reshape(H, W)
    n = np.asarray(inp["n"]).reshape(H, W)
    oy, ox = inp["origin"]
    sy, sx = inp["scales"]
    vin, nin = masked_zero(v, mask), masked_zero(n, mask)
    A, E = {}, {}
    data = aa.Array2D.no_mask(values=v, pixel_scales=(sy, sx), origin=(oy, ox))
    noise = aa.Array2D.no_mask(values=n, pixel_scales=(sy, sx), origin=(oy, ox))
    # histories: the mask is applied to a dataset that already went through apply_mask with another (first) mask; the second
    # call must start from the original unmasked data.  First masks are derived from the mask under test: one hides only its
    # first unmasked pixel, one hides everything except its last unmasked pixel.
    pos = [(y, x) for y in range(H) for x in range(W) if not mask[y, x]]
    firsts = []
    if pos:
        f1 = np.full((H, W), False)
        f1[pos[0]] = True
        f2 = np.full((H, W), True)
        f2[pos[-1]] = False
        firsts = [(nm, f) for nm, f in (("hide %d,%d" % pos[0], f1), ("keep only %d,%d" % pos[-1], f2)) if not f.all()]
    runs = []
    for (ky, kx) in kernels:
        runs.append((ky, kx, None, None))
        if (ky, kx) in ((1, 1), (3, 3)):
            runs.extend((ky, kx, nm, f) for nm, f in firsts)
    for (ky, kx, first_name, first) in runs:
        tag = "%dx%d,psf=%dx%d:" % (H, W, ky, kx)
        if first is not None:
            tag += "after apply_mask(%s):" % first_name
        kv = np.full((ky, kx), 0.25)
        kv[ky // 2, kx // 2] = 1.0
        psf = aa.Kernel2D.no_mask(values=kv, pixel_scales=(sy, sx))
        m = aa.Mask2D(mask=mask, pixel_scales=(sy, sx), origin=(oy, ox))

        def run():
            ds = aa.Imaging(data=data, noise_map=noise, psf=psf)
            if first is not None:
                ds = ds.apply_mask(mask=aa.Mask2D(mask=first, pixel_scales=(sy, sx), origin=(oy, ox)))
            return ds.apply_mask(mask=m)

        md = hx.attempt(run)
        if isinstance(md, hx.Raised):
            A[tag + "apply_mask"] = md
            E[tag + "apply_mask"] = "no exception"
            continue
        Ho, Wo = (int(s) for s in md.mask.shape_native)
        frame_ok = Ho >= H and Wo >= W and (Ho - H) % 2 == 0 and (Wo - W) % 2 == 0
        fy, fx = (-((Ho - H) // 2), -((Wo - W) // 2)) if frame_ok else (0, 0)
        emask = bool_window(mask, fy, fx, Ho, Wo, True)
        geo = (oy, ox, sy, sx, H, W, fy, fx)
        A[tag + "mask"] = np.array(md.mask.array, dtype=bool)
        E[tag + "mask"] = emask
        A[tag + "data.native"] = _nat(md.data)
        E[tag + "data.native"] = window(vin, fy, fx, Ho, Wo, 0.0)
        A[tag + "noise.native"] = _nat(md.noise_map)
        E[tag + "noise.native"] = window(nin, fy, fx, Ho, Wo, 0.0)

        def triples():
            g = np.asarray(hx.unwrap(md.grids.uniform.slim.array)).reshape(-1, 2)
            out = np.empty((g.shape[0], 4), dtype=object)
            out[:, :2] = g
            out[:, 2] = np.asarray(hx.unwrap(md.data.slim.array)).reshape(-1)
            out[:, 3] = np.asarray(hx.unwrap(md.noise_map.slim.array)).reshape(-1)
            return out

        A[tag + "(coordinate,data,noise)"] = hx.attempt(triples)
        E[tag + "(coordinate,data,noise)"] = ref_pairs(mask, (oy, ox, sy, sx, H, W, 0, 0), [vin, nin])
        if first is None and (Ho, Wo) == (H + ky - 1, W + kx - 1) and (ky, kx) != (1, 1):
            back = hx.attempt(lambda: md.trimmed_after_convolution_from(kernel_shape=(ky, kx)))
            if isinstance(back, hx.Raised):
                A[tag + "dataset.pad_trim"] = back
                E[tag + "dataset.pad_trim"] = "no exception"
            else:
                A[tag + "dataset.pad_trim.data"] = _nat(back.data)
                E[tag + "dataset.pad_trim.data"] = vin
                A[tag + "dataset.pad_trim.noise"] = _nat(back.noise_map)
                E[tag + "dataset.pad_trim.noise"] = nin
                A[tag + "dataset.pad_trim.mask"] = _mask_of(back.data)
                E[tag + "dataset.pad_trim.mask"] = mask
    return A, E


def case_imaging(ctx, H, W, kernels):
    mask = _fork_mask(ctx, H, W)
    n = V.real_array("n", (H, W))
    ctx.assume(z3.And(*[e.t > 0 for e in n.reshape(-1)]))
    inputs = {"mask": mask, "v": V.real_array("v", (H, W)), "n": n}
    inputs.update(_geometry_inputs(ctx))
    hx.run_body(ctx, body_imaging, inputs, {"H": H, "W": W, "kernels": kernels}, validate_every=32)


# ------------------------------------------------------------------------------------------- zoom

def _zoom_obligations(A, E, pre, m, mask, v, H, W, buffers):
    """obligations for zooming around mask object `m` whose CURRENT content is `mask`: the window of
    Array2D(v, m).zoomed_around_mask(buffer) contains every unmasked pixel with its value"""
    import autoarray as aa
    arr = aa.Array2D(values=v, mask=m)
    lab = aa.Array2D(values=labelled(H, W), mask=m)
    vin = masked_zero(v, mask)
    pos = [(y, x) for y in range(H) for x in range(W) if not mask[y, x]]
    reg = hx.attempt(lambda: [int(e) for e in m.zoom_region])
    A[pre + "zoom_region_contains_unmasked"] = reg if isinstance(reg, hx.Raised) else bool(
        all(reg[0] <= y < reg[1] and reg[2] <= x < reg[3] for (y, x) in pos))
    E[pre + "zoom_region_contains_unmasked"] = True
    for buf in buffers:
        tag = pre + "buffer=%d:" % buf
        z = hx.attempt(lambda: arr.zoomed_around_mask(buffer=buf))
        zn = _nat(z)
        if isinstance(zn, hx.Raised):
            A[tag + "zoomed"] = zn
            E[tag + "zoomed"] = "no exception"
            continue
        zn = np.asarray(hx.unwrap(zn))
        Hz, Wz = zn.shape
        # witness for the window position: where the first unmasked (labelled) pixel lands
        probe = hx.attempt(lambda: lab.zoomed_around_mask(buffer=buf).native.array)
        wy, wx = read_offset(probe, H, W, list(range(-H - 8, H + 8)), list(range(-W - 8, W + 8)))
        inside = [(0 <= y - wy < Hz and 0 <= x - wx < Wz) for (y, x) in pos]
        A[tag + "every_unmasked_pixel_with_its_value"] = [zn[y - wy, x - wx] if ok else hx.Raised("outside the window")
                                                           for (y, x), ok in zip(pos, inside)]
        E[tag + "every_unmasked_pixel_with_its_value"] = [v[y, x] for (y, x) in pos]
        # it is a window of the native array: in-frame pixels are copies (masked ones are zero in the native array)
        infr = [(r, c) for r in range(Hz) for c in range(Wz) if 0 <= r + wy < H and 0 <= c + wx < W]
        A[tag + "window_of_native"] = [zn[r, c] for (r, c) in infr]
        E[tag + "window_of_native"] = [vin[r + wy, c + wx] for (r, c) in infr]
        A[tag + "zoomed_mask_all_false"] = bool(not np.array(z.mask.array, dtype=bool).any())
        E[tag + "zoomed_mask_all_false"] = True


def body_zoom(inp, H, W, buffers):
    """zoomed_around_mask returns a window of the native array that contains every unmasked pixel with its value"""
    import autoarray as aa
    mask = np.array(inp["mask"], dtype=bool).reshape(H, W)
    v = np.asarray(inp["v"]).reshape(H, W)
    m = aa.Mask2D(mask=mask, pixel_scales=(1.0, 2.0), origin=(0.5, -0.25))
    A, E = {}, {}
    _zoom_obligations(A, E, "", m, mask, v, H, W, buffers)
    return A, E


ZOOM_READS = ("zoom_region", "zoom_shape_native", "zoom_centre", "zoom_offset_pixels", "zoom_offset_scaled",
              "zoom_mask_unmasked", "mask_centre", "shape_native_masked_pixels")


def _zoom_reads(m, arr, buffers):
    for name in ZOOM_READS:
        hx.attempt(lambda: getattr(m, name))
    for buf in buffers:
        hx.attempt(lambda: arr.zoomed_around_mask(buffer=buf))
        hx.attempt(lambda: arr.extent_of_zoomed_array(buffer=buf))


def body_zoom_history(inp, H, W, buffers, steps=1):
    """histories: zoom around a mask object (every public zoom quantity is read), edit ONE pixel of the same object in place
    (Mask2D.__setitem__, every pixel, the flipped value), then zoom again: the second zoom must describe the CURRENT mask.
    steps=2: a second single-pixel edit (every pixel again) and a third zoom; the obligations are stated on the last zoom"""
    import autoarray as aa
    mask = np.array(inp["mask"], dtype=bool).reshape(H, W)
    v = np.asarray(inp["v"]).reshape(H, W)
    A, E = {}, {}
    for y in range(H):
        for x in range(W):
            mask2 = mask.copy()
            mask2[y, x] = not mask[y, x]
            if mask2.all():
                continue
            seconds = [None] if steps == 1 else [(y2, x2) for y2 in range(H) for x2 in range(W)]
            for sec in seconds:
                m = aa.Mask2D(mask=mask.copy(), pixel_scales=(1.0, 2.0), origin=(0.5, -0.25))
                _zoom_reads(m, aa.Array2D(values=v, mask=m), buffers)
                m[y, x] = bool(mask2[y, x])
                pre = "zoom; mask[%d,%d]=%s; zoom:" % (y, x, bool(mask2[y, x]))
                cur = mask2
                if sec is not None:
                    cur = mask2.copy()
                    cur[sec] = not mask2[sec]
                    if cur.all():
                        continue
                    _zoom_reads(m, aa.Array2D(values=v, mask=m), buffers)
                    m[sec[0], sec[1]] = bool(cur[sec])
                    pre = "zoom; mask[%d,%d]=%s; zoom; mask[%d,%d]=%s; zoom:" % (y, x, bool(mask2[y, x]), sec[0], sec[1], bool(cur[sec]))
                A[pre + "mask_object_holds_the_edit"] = np.array(m.array, dtype=bool)
                E[pre + "mask_object_holds_the_edit"] = cur
                _zoom_obligations(A, E, pre, m, cur, v, H, W, buffers)
    return A, E


def case_zoom_history(ctx, H, W, buffers, steps=1):
    mask = _fork_mask(ctx, H, W)
    inputs = {"mask": mask, "v": V.real_array("v", (H, W))}
    kw = {"H": H, "W": W, "buffers": buffers}
    if steps != 1:
        kw["steps"] = steps
    hx.run_body(ctx, body_zoom_history, inputs, kw, validate_every=32)


def case_zoom(ctx, H, W, buffers):
    mask = _fork_mask(ctx, H, W)
    inputs = {"mask": mask, "v": V.real_array("v", (H, W))}
    hx.run_body(ctx, body_zoom, inputs, {"H": H, "W": W, "buffers": buffers}, validate_every=32)


BODIES = {"case_kernel": body_kernel, "case_extract": body_extract, "case_array_resize": body_array_resize,
          "case_masked_resize": body_masked_resize, "case_pad_trim": body_pad_trim, "case_imaging": body_imaging,
          "case_zoom": body_zoom, "case_mask_trim": body_mask_trim,
          "case_zoom_history": body_zoom_history}


# ------------------------------------------------------------------------------------------- case lists

def _shapes(cap, side):
    return [(H, W) for H in range(1, side + 1) for W in range(1, side + 1) if H * W <= cap]


ODD_KERNELS_7 = ODD_KERNELS + [(1, 7), (7, 1), (3, 7), (7, 3), (5, 7), (7, 5), (7, 7)]


def cases(tier):
    quick = tier == "quick"
    n_in, n_out = (5, 6) if quick else (7, 10)
    uk = ODD_KERNELS if quick else ODD_KERNELS_7
    targets = [[a, b] for a in range(1, n_out + 1) for b in range(1, n_out + 1)]
    out = []
    for H in range(1, n_in + 1):
        for W in range(1, n_in + 1):
            out.append(("case_kernel", {"H": H, "W": W, "targets": targets}))
            out.append(("case_array_resize", {"H": H, "W": W, "targets": targets, "store_native": bool((H + W) % 2)}))
            out.append(("case_pad_trim", {"H": H, "W": W, "kernels": uk, "all_masks": False}))
            out.append(("case_mask_trim", {"Hp": H, "Wp": W}))
    ext, margin = (4, 2) if quick else (6, 3)
    for H in range(1, ext + 1):
        for W in range(1, ext + 1):
            out.append(("case_extract", {"H": H, "W": W, "margin": margin}))

    def split_for(n):
        return 0 if n < 6 else (2 if n <= 6 else (4 if n <= 8 else (5 if n <= 12 else 7)))

    # every mask (forked) of the small shapes
    nt = 5 if quick else 6
    mt = [[a, b] for a in range(1, nt + 1) for b in range(1, nt + 1)]
    mshapes = _shapes(6, 5) if quick else (_shapes(8, 7) + [(3, 3), (2, 5), (5, 2)])
    for (H, W) in mshapes:
        out.append(("case_masked_resize", {"H": H, "W": W, "targets": mt}, {"split": split_for(H * W)}))
        out.append(("case_pad_trim", {"H": H, "W": W, "kernels": ODD_KERNELS, "all_masks": True}, {"split": split_for(H * W)}))
    ik = [(1, 1), (1, 3), (3, 1), (3, 3), (3, 5), (5, 3)] + ([] if quick else [(1, 5), (5, 1), (5, 5)])
    ishapes = (_shapes(8, 5) + [(3, 3)]) if quick else (_shapes(9, 5) + [(2, 5), (5, 2), (3, 4), (4, 3)])
    for (H, W) in ishapes:
        n = H * W
        out.append(("case_imaging", {"H": H, "W": W, "kernels": ik}, {"split": 0 if n < 6 else (3 if n <= 8 else 5)}))
    zshapes = _shapes(9, 6) + [(2, 5), (5, 2)] + ([] if quick else [(3, 4), (4, 3), (2, 6), (6, 2)])
    for (H, W) in zshapes:
        n = H * W
        out.append(("case_zoom", {"H": H, "W": W, "buffers": [0, 1, 2] if quick else [0, 1, 2, 3]},
                    {"split": 0 if n < 8 else (3 if n <= 10 else 5)}))
    for (H, W) in _shapes(6, 6) if quick else (_shapes(9, 7) + [(2, 5), (5, 2)]):
        n = H * W
        out.append(("case_zoom_history", {"H": H, "W": W, "buffers": [0, 1]}, {"split": 0 if n < 6 else (2 if n <= 6 else (4 if n <= 8 else 5))}))
    if not quick:
        for (H, W) in [(3, 5), (5, 3)]:
            out.append(("case_zoom", {"H": H, "W": W, "buffers": [0, 1, 2]}, {"split": 7}))
        for (H, W) in _shapes(6, 6):
            out.append(("case_zoom_history", {"H": H, "W": W, "buffers": [0, 1], "steps": 2}, {"split": 0 if H * W < 5 else 3}))

    def weight(c):
        kw = c[1]
        n = kw.get("H", kw.get("Hp")) * kw.get("W", kw.get("Wp"))
        heavy = c[0] in ("case_masked_resize", "case_imaging", "case_zoom", "case_zoom_history") or kw.get("all_masks")
        return -(2 ** n if heavy else n)

    out.sort(key=weight)
    return out


def replay(cand_):
    cand_ = dict(cand_)
    kw = dict(cand_["case_kwargs"])
    for k in ("targets", "kernels"):
        if k in kw:
            kw[k] = [tuple(t) for t in kw[k]]
    kw.pop("all_masks", None)
    cand_["case_kwargs"] = kw
    return hx.replay_body(BODIES[cand_["case_fn"]], cand_, key=cand_["obligation"])
