"""C07 - regularization matrices are symmetric PSD (PD) with the stated quadratic form; block placement in the inversion."""
import itertools
import os

import numpy as np
import z3

from symx import hx, values as V

PROPERTY = "C07"
FUNCTIONS = [
    "autoarray.inversion.regularization.regularization_util.zeroth_regularization_matrix_from",
    "autoarray.inversion.regularization.regularization_util.constant_regularization_matrix_from",
    "autoarray.inversion.regularization.regularization_util.constant_zeroth_regularization_matrix_from",
    "autoarray.inversion.regularization.regularization_util.adaptive_regularization_weights_from",
    "autoarray.inversion.regularization.regularization_util.brightness_zeroth_regularization_weights_from",
    "autoarray.inversion.regularization.regularization_util.weighted_regularization_matrix_from",
    "autoarray.inversion.regularization.regularization_util.brightness_zeroth_regularization_matrix_from",
    "autoarray.inversion.regularization.regularization_util.reg_split_from",
    "autoarray.inversion.regularization.regularization_util.pixel_splitted_regularization_matrix_from",
    "autoarray.inversion.regularization.constant.Constant.regularization_matrix_from",
    "autoarray.inversion.regularization.constant.Constant.regularization_weights_from",
    "autoarray.inversion.regularization.constant_zeroth.ConstantZeroth.regularization_matrix_from",
    "autoarray.inversion.regularization.zeroth.Zeroth.regularization_matrix_from",
    "autoarray.inversion.regularization.adaptive_brightness.AdaptiveBrightness.regularization_matrix_from",
    "autoarray.inversion.regularization.adaptive_brightness.AdaptiveBrightness.regularization_weights_from",
    "autoarray.inversion.regularization.brightness_zeroth.BrightnessZeroth.regularization_matrix_from",
    "autoarray.inversion.regularization.brightness_zeroth.BrightnessZeroth.regularization_weights_from",
    "autoarray.inversion.regularization.constant_split.ConstantSplit.regularization_matrix_from",
    "autoarray.inversion.regularization.adaptive_brightness_split.AdaptiveBrightnessSplit.regularization_matrix_from",
    "autoarray.inversion.pixelization.mappers.mapper_util.adaptive_pixel_signals_from",
    "autoarray.inversion.pixelization.mappers.abstract.AbstractMapper.pixel_signals_from",
    "autoarray.inversion.pixelization.mesh.mesh_util.rectangular_neighbors_from",
    "autoarray.structures.mesh.rectangular_2d.Mesh2DRectangular.neighbors",
    "autoarray.structures.mesh.delaunay_2d.Mesh2DDelaunay.neighbors",
    "autoarray.inversion.linear_obj.linear_obj.LinearObj.regularization_matrix",
    "autoarray.inversion.inversion.abstract.AbstractInversion.regularization_matrix",
    "autoarray.inversion.inversion.abstract.AbstractInversion.regularization_matrix_reduced",
    "autoarray.inversion.inversion.abstract.AbstractInversion.no_regularization_index_list",
]

RIDGE = 1e-8          # the float literal of the repository; enters both sides as the exact rational of this float

# Delaunay vertex sets (y, x), in general position (no four cocircular points, no three collinear hull points)
DELAUNAY = {
    "D5": [[1.0, -1.0], [1.0, 1.25], [0.125, 0.0], [-1.0, -1.0], [-1.25, 1.0]],
    "D6": [[1.0, -1.0], [1.0, 1.25], [0.25, 0.125], [-1.0, -1.0], [-1.25, 1.0], [-0.25, -0.375]],
    "D7": [[1.5, -1.0], [1.0, 1.25], [0.25, 0.125], [-1.0, -1.5], [-1.25, 1.0], [-0.25, -0.375], [0.5, -0.25]],
    "D9": [[1.5, -1.0], [1.0, 1.25], [0.25, 0.125], [-1.0, -1.5], [-1.25, 1.0], [-0.25, -0.375], [0.5, -0.25],
           [1.25, 0.25], [-0.75, 0.25]],
}
