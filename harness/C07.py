"""C07 - regularization matrices are symmetric PSD (PD) with the stated quadratic form; block placement in the inversion."""
import itertools
import os

import numpy as np
import z3

from symx import hx, values as V

PROPERTY = "C07"
FUNCTIONS = [
    "autoarray.inversion.regularization.regularization_util.zeroth_regularization_matrix_from",
    "autoarray.inversion.regularization.regularization_util.constant_regularization_matrix_from",
    "autoarray.inversion.regularization.regularization_util.constant_zeroth_regularization_matrix_from",
    "autoarray.inversion.regularization.regularization_util.adaptive_regularization_weights_from",
    "autoarray.inversion.regularization.regularization_util.brightness_zeroth_regularization_weights_from",
    "autoarray.inversion.regularization.regularization_util.weighted_regularization_matrix_from",
    "autoarray.inversion.regularization.regularization_util.brightness_zeroth_regularization_matrix_from",
    "autoarray.inversion.regularization.regularization_util.reg_split_from",
    "autoarray.inversion.regularization.regularization_util.pixel_splitted_regularization_matrix_from",
    "autoarray.inversion.regularization.constant.Constant.regularization_matrix_from",
    "autoarray.inversion.regularization.constant_zeroth.ConstantZeroth.regularization_matrix_from",
    "autoarray.inversion.regularization.zeroth.Zeroth.regularization_matrix_from",
    "autoarray.inversion.regularization.adaptive_brightness.AdaptiveBrightness.regularization_matrix_from",
    "autoarray.inversion.regularization.adaptive_brightness.AdaptiveBrightness.regularization_weights_from",
    "autoarray.inversion.regularization.brightness_zeroth.BrightnessZeroth.regularization_matrix_from",
    "autoarray.inversion.regularization.brightness_zeroth.BrightnessZeroth.regularization_weights_from",
    "autoarray.inversion.regularization.constant_split.ConstantSplit.regularization_matrix_from",
    "autoarray.inversion.regularization.adaptive_brightness_split.AdaptiveBrightnessSplit.regularization_matrix_from",
    "autoarray.inversion.pixelization.mappers.mapper_util.adaptive_pixel_signals_from",
    "autoarray.inversion.pixelization.mappers.abstract.AbstractMapper.pixel_signals_from",
    "autoarray.inversion.pixelization.mesh.mesh_util.rectangular_neighbors_from",
    "autoarray.structures.mesh.rectangular_2d.Mesh2DRectangular.neighbors",
    "autoarray.structures.mesh.delaunay_2d.Mesh2DDelaunay.neighbors",
    "autoarray.inversion.linear_obj.linear_obj.LinearObj.regularization_matrix",
    "autoarray.inversion.linear_obj.func_list.AbstractLinearObjFuncList.neighbors",
    "autoarray.inversion.inversion.abstract.AbstractInversion.regularization_matrix",
    "autoarray.inversion.inversion.abstract.AbstractInversion.regularization_matrix_reduced",
    "autoarray.inversion.inversion.abstract.AbstractInversion.no_regularization_index_list",
    "autoarray.preloads.Preloads.set_regularization_matrix_and_term",
    "autoarray.inversion.inversion.factory.inversion_from",
    "autoarray.inversion.inversion.factory.inversion_imaging_from",
    "autoarray.inversion.inversion.factory.inversion_interferometer_from",
    "autoarray.inversion.regularization.gaussian_kernel.gauss_cov_matrix_from",
    "autoarray.inversion.regularization.gaussian_kernel.GaussianKernel.regularization_matrix_from",
    "autoarray.inversion.regularization.exponential_kernel.exp_cov_matrix_from",
    "autoarray.inversion.regularization.exponential_kernel.ExponentialKernel.regularization_matrix_from",
]

RIDGE = 1e-8          # the float literal of the repository; enters both sides as the exact rational of this float

# Delaunay vertex sets (y, x), in general position (no four cocircular points, no three collinear hull points)
DELAUNAY = {
    "D5": [[1.0, -1.0], [1.0, 1.25], [0.125, 0.0], [-1.0, -1.0], [-1.25, 1.0]],
    "D6": [[1.0, -1.0], [1.0, 1.25], [0.25, 0.125], [-1.0, -1.0], [-1.25, 1.0], [-0.25, -0.375]],
    "D7": [[1.5, -1.0], [1.0, 1.25], [0.25, 0.125], [-1.0, -1.5], [-1.25, 1.0], [-0.25, -0.375], [0.5, -0.25]],
    "D9": [[1.5, -1.0], [1.0, 1.25], [0.25, 0.125], [-1.0, -1.5], [-1.25, 1.0], [-0.25, -0.375], [0.5, -0.25],
           [1.25, 0.25], [-0.75, 0.25]],
    "D12": [[1.5, -1.0], [1.0, 1.25], [0.25, 0.125], [-1.0, -1.5], [-1.25, 1.0], [-0.25, -0.375], [0.5, -0.25],
            [1.25, 0.25], [-0.75, 0.25], [0.5, 0.875], [-0.5, -0.875], [0.125, 1.0]],
    # hub: a centre vertex with a ring of 10 vertices (degree 10 - wider neighbour table than any other set)
    "H10": [[0.0625, -0.03125], [0.0, 1.0], [0.6875, 0.8125], [1.0625, 0.4375], [0.9375, -0.375], [0.5625, -0.9375], [0.125, -1.0],
            [-0.6875, -0.875], [-1.0, -0.375], [-0.9375, 0.375], [-0.6875, 0.875]],
    # NOT in general position: a 2x3 lattice (two exactly co-circular quadruples, collinear rows) plus three irregular vertices
    "L9": [[0.5, -1.0], [0.5, 0.0], [0.5, 1.0], [-0.5, -1.0], [-0.5, 0.0], [-0.5, 1.0], [1.375, 0.3125], [-1.25, -0.4375], [0.125, 1.8125]],
}
# sets with co-circular vertices: the triangulation is not unique, the neighbouring pairs are the edges of the triangulation the library
# itself holds (mesh_grid.delaunay.simplices - the scipy object the mapper interpolates over); for all other sets the reference
# triangulation is computed here independently
DEGENERATE = {"L9"}

BOUNDS = {
    "quick": "ENUMERATED: neighbour tables produced by the repository's own mesh code for rectangular meshes 3x3, 3x4, 4x3, 4x4, 3x5, 5x5 and "
             "Delaunay vertex sets D5, D6, D7, D9 (5-9 vertices), H10 (hub vertex of degree 10) and L9 (2x3 lattice with co-circular quadruples + 3 "
             "irregular vertices; reference pairs = edges of the library's own triangulation), plus EVERY symmetric neighbour table on 2, 3, 4 pixels (adjacency bits forked); "
             "scheme classes observed through real mappers (3x3 image grid) on 3x3, 3x4, D5, D7, H10, L9 and through linear function lists with 1, 2, 3, 5 "
             "parameters; split-cross tables of the D5, D6 mappers; every sequence of <= 3 linear objects over {regularized 2x2, unregularized 1, "
             "unregularized 2} plus 9 sequences containing a real rectangular mapper / function list. "
             "SYMBOLIC (solver variables): all coefficients (> 0), kernel-level per-pixel weights (>= 0), the adapt-data image (> 0), the signal "
             "scale (uninterpreted pow; and concrete 1, 2), pixel signals in [0,1], split-cross interpolation weights (any reals), the test vector x, "
             "the entries of regularization blocks at the inversion level. "
             "Definiteness decided directly by the solver (exists x != 0: x^T H x <= 0 unsat, coefficient symbolic) for Constant on all meshes with "
             "<= 9 pixels, ConstantZeroth on <= 5 pixels, ConstantSplit (dyadic stand-in cross weights) on D5, D6; for all other scheme/mesh "
             "combinations by solver-decided certificates (see assumptions). "
             "HISTORIES: on one linear object (real 3x3 mapper, 3-parameter function list) the block is observed directly and through new "
             "inversions, then its regularization is removed / added / replaced / its coefficient reassigned and everything is observed again "
             "(coefficients and x symbolic). "
             "KERNEL SCHEMES, ASSEMBLY ONLY: gauss_cov_matrix_from / exp_cov_matrix_from entrywise for EVERY pixel pair against "
             "exp(-d^2/(2 s^2)) resp. exp(-d/s) (exp uninterpreted, scale symbolic > 0, mesh points of 3x3 and D5, Gaussian also 3 points with "
             "symbolic coordinates), symmetric, diagonal 1 + 1e-8; GaussianKernel / ExponentialKernel through real mappers: the matrix handed "
             "to np.linalg.inv is that covariance and the result is coefficient * (the inverse returned)",
    "thorough": "as quick plus rectangular meshes 4x5, 5x3, 6x6, 5x7, 7x7, 8x8 and Delaunay set D12 at kernel level, every symmetric neighbour table "
                "on 5 pixels, classes on 4x4, 4x3, 5x5, D6, D9, D12 with 3x3 and 4x4 adapt images, function lists up to 8 parameters, split-cross tables of "
                "all five Delaunay mappers, direct definiteness up to 12 pixels for rectangular meshes (3x4, 4x3), block sequences of <= 4 objects, "
                "histories also on D6 and 3x4, kernel covariance also on 4x4, 3x5, D9 and 4 symbolic points",
}
OUTSIDE = [
    "GaussianKernel / ExponentialKernel: positive definiteness / symmetry of the returned matrix (inverse of a matrix of exponentials: Bochner's "
    "theorem plus a compiled LAPACK inverse, not a bounded SMT fact) - only the ASSEMBLY is claimed: which covariance is built (every pair, "
    "no truncation) and that coefficient * inv(covariance) is returned. MaternKernel: nothing is claimed",
    "kernel covariance: scales so small that a wrong entry is below float64 resolution (exp(-d^2/2s^2) underflows) are decided by the solver but a "
    "counterexample there cannot be replayed; the 'window' sub-cases (all distances <= 6.5 scales) make counterexamples replayable",
    "float64 rounding: for coefficients >~ 1e4 the absolute 1e-8 ridge is below the float resolution of the matrix entries, so the float matrix "
    "is numerically singular although the real-arithmetic matrix is positive definite",
    "meshes beyond the listed shapes / vertex sets; Voronoi meshes; Delaunay adjacency itself is qhull's answer (the reference pairs are the "
    "edges of scipy.spatial.Delaunay simplices, the repository reads vertex_neighbor_vertices)",
    "direct (solver-only) definiteness for the per-pixel weighted schemes: nlsat does not terminate with n weights + n unknowns; there the "
    "verdict is the solver-decided certificate (quadratic-form identity with non-negative pair coefficients, strict row dominance) plus the lemma below",
]
STUBS = [
    "pixel_signals ** signal_scale with a symbolic signal_scale: uninterpreted function pow(base, exponent) (no axioms; every obligation holds "
    "for arbitrary real values of the signals, so none are needed). Cases with signal_scale 1 and 2 use the exact polynomial.",
    "scipy.spatial.Delaunay / find_simplex run natively on the concrete vertex sets (mesh geometry is concrete)",
    "np.exp of a symbolic argument: uninterpreted function (engine default); no axiom is used (the diagonal exp(0) is folded to the float 1.0 "
    "by numpy itself). np.linalg.inv on a symbolic covariance inside GaussianKernel/ExponentialKernel.regularization_matrix_from: the module's "
    "np is swapped for the duration of the call by a recorder that returns a matrix of fresh reals ('the inverse', opaque) and logs the argument",
    "autoarray.mock MockMapper / MockLinearObj / MockRegularization / MockInversion as carriers of symbolic split-cross tables, pixel signals "
    "and regularization blocks (the code under test - scheme classes, LinearObj.regularization_matrix, AbstractInversion.regularization_matrix"
    "[_reduced] - is the real one)",
]
ASSUMPTIONS = [
    "coefficients > 0, adapt data > 0, kernel-level weights >= 0 (as the property quantifies)",
    "lemma (not decided by the solver): a symmetric matrix whose quadratic form equals sum_k a_k * (linear form_k(x))^2 + r*|x|^2 with all a_k >= 0 "
    "and r > 0 is positive definite; a symmetric matrix with positive diagonal that is strictly (weakly) row diagonally dominant is positive "
    "(semi-)definite (Gershgorin). The identities, the signs a_k >= 0, r > 0 and the dominance are solver-decided for all symbolic inputs.",
    "lemma: x != 0 iff for some i: x_0..x_{i-1} = 0 and x_i != 0; the quadratic form is homogeneous, so x_i = 1 w.l.o.g. (direct definiteness "
    "queries are split into these n cases)",
]
EXPLORER_OPTS = {"timeout_ms": 120000, "max_paths": 5000}
BUDGET_S = {"quick": 900, "thorough": 2300}
IMG = 3


# ------------------------------------------------------------------------------------------------ engine work-arounds

def POST_INSTALL():
    """pow with a symbolic / non-integer exponent -> uninterpreted function (values.py raises Unsupported)"""
    import sys
    sys.set_int_max_str_digits(0)
    orig_pow = V.SymReal.__pow__

    def _uf_pow(base, exp):
        f = V.ctx().uf("pow", 2)
        return V.SymReal(f(V.to_real_term(base), V.to_real_term(exp)))

    def sym_pow(self, o):
        if isinstance(o, np.ndarray):
            return NotImplemented
        if V.is_sym(o):
            return _uf_pow(self, o)
        try:
            return orig_pow(self, o)
        except V.Unsupported:
            return _uf_pow(self, o)

    def sym_rpow(self, o):
        if isinstance(o, np.ndarray):
            return NotImplemented
        return _uf_pow(o, self)

    V.SymReal.__pow__ = sym_pow
    V.SymReal.__rpow__ = sym_rpow

    # np.asarray / np.array with a float dtype: the result may later receive proxies in place (`w = np.asarray(w, dtype="float"); w *= data`),
    # so - like the facade's float allocations - it must be an object array; and like numpy, asarray of an array that already stands for a
    # float array (an object array) returns the SAME buffer, so in-place updates alias the caller's array exactly as they do natively
    from symx import shim

    orig_asarray, orig_array = shim.NPFacade.asarray, shim.NPFacade.array

    def _float_obj(self, obj, dtype, copy, orig, kw):
        if shim.ENABLED[0] and dtype is not None and shim._is_float_dtype(dtype) and not kw:
            raw = shim.unwrap(obj)
            if isinstance(raw, np.ndarray) and raw.dtype == object:
                return V.as_symarray(raw.copy()) if copy else raw
            if not shim.has_sym(obj):
                try:
                    return V.as_symarray(shim.as_obj(np.asarray(raw, dtype=float)))
                except (TypeError, ValueError):
                    pass
        return orig(self, obj, dtype=dtype, **kw)

    shim.NPFacade.asarray = lambda self, obj, dtype=None, **kw: _float_obj(self, obj, dtype, False, orig_asarray, kw)
    shim.NPFacade.array = lambda self, obj, dtype=None, **kw: _float_obj(self, obj, dtype, True, orig_array, kw)

    # the random-pinning fallback after an 'unknown' costs up to 24 x 4 s per obligation; on a broken repository many
    # obligations go unknown at once - 6 tries keep such runs inside the budget (it only ever turns unknown into a candidate)
    from symx.explore import Explorer
    orig_sample = Explorer._sample_sat
    Explorer._sample_sat = lambda self, extra, tries=6, seed=0: orig_sample(self, extra, tries=tries, seed=seed)


class _Native:
    """build concrete geometry with the facades passing through"""

    def __enter__(self):
        from symx import shim
        self.s = shim.native()
        self.s.__enter__()

    def __exit__(self, *a):
        self.s.__exit__(*a)


# ------------------------------------------------------------------------------------------------ meshes and references

_CACHE = {}


def _rect_pairs(h, w):
    pairs = []
    for r in range(h):
        for c in range(w):
            if c + 1 < w:
                pairs.append((r * w + c, r * w + c + 1))
            if r + 1 < h:
                pairs.append((r * w + c, (r + 1) * w + c))
    return sorted(pairs)


def _delaunay_pairs(points):
    import scipy.spatial
    tri = scipy.spatial.Delaunay(np.array(points, dtype=float))
    pairs = set()
    for s in tri.simplices:
        for a, b in itertools.combinations(sorted(int(v) for v in s), 2):
            pairs.add((a, b))
    return sorted(pairs)


def _library_triangulation_pairs(mesh):
    key = ("libtri", tuple(mesh))
    if key not in _CACHE:
        with _Native():
            mg = mesh_grid_from(mesh)
            pairs = set()
            for simplex in np.asarray(mg.delaunay.simplices):
                for a, b in itertools.combinations(sorted(int(v) for v in simplex), 2):
                    pairs.add((a, b))
            _CACHE[key] = sorted(pairs)
    return _CACHE[key]


def mesh_reference(mesh):
    """independent of the repository: parameter count and the set of neighbouring pairs"""
    if mesh[0] == "rect":
        return mesh[1] * mesh[2], _rect_pairs(mesh[1], mesh[2])
    if mesh[0] == "del":
        if mesh[1] in DEGENERATE:
            return len(DELAUNAY[mesh[1]]), _library_triangulation_pairs(mesh)
        return len(DELAUNAY[mesh[1]]), _delaunay_pairs(DELAUNAY[mesh[1]])
    if mesh[0] == "chain":          # linear function list: parameter i neighbours i-1 and i+1
        return mesh[1], [(i, i + 1) for i in range(mesh[1] - 1)]
    raise ValueError(mesh)


def mesh_grid_from(mesh, grid=None):
    import autoarray as aa
    if mesh[0] == "rect":
        return aa.Mesh2DRectangular.overlay_grid(shape_native=(mesh[1], mesh[2]), grid=grid)
    return aa.Mesh2DDelaunay(values=aa.Grid2DIrregular(np.array(DELAUNAY[mesh[1]], dtype=float)))


def image_parts(img):
    import autoarray as aa
    mask = aa.Mask2D.all_false(shape_native=(img, img), pixel_scales=1.0 if img == 3 else 0.75)
    over_sampler = aa.OverSamplerUniform(mask=mask, sub_size=1)
    return mask, over_sampler, over_sampler.over_sampled_grid


def repo_tables(mesh):
    """neighbour table of the repository's own mesh object (concrete)"""
    key = ("tables", tuple(mesh))
    if key not in _CACHE:
        with _Native():
            _, _, grid = image_parts(IMG)
            mg = mesh_grid_from(mesh, grid)
            nb = mg.neighbors
            _CACHE[key] = (np.array(nb, dtype=int), np.array(nb.sizes, dtype=int))
    return _CACHE[key]


def graph_tables(adj_bits, n):
    """neighbour table of an arbitrary symmetric adjacency (bits of the upper triangle)"""
    bits = list(np.asarray(adj_bits, dtype=bool).reshape(-1))
    pairs = [p for p, b in zip(itertools.combinations(range(n), 2), bits) if b]
    lists = [[] for _ in range(n)]
    for i, j in pairs:
        lists[i].append(j)
        lists[j].append(i)
    width = max(1, max(len(l) for l in lists))
    nb = -np.ones((n, width), dtype=int)
    for i, l in enumerate(lists):
        nb[i, :len(l)] = l
    return nb, np.array([len(l) for l in lists], dtype=int), pairs


def build_mapper(mesh, img, adapt=None):
    import autoarray as aa
    if mesh[0] == "chain":
        return aa.m.MockLinearObjFuncList(parameters=mesh[1], regularization=None)
    mask, over_sampler, grid = image_parts(img)
    mg = mesh_grid_from(mesh, grid)
    ad = None
    if adapt is not None:
        ad = aa.Array2D(values=np.asarray(adapt).reshape(img, img), mask=mask)
    grids = aa.MapperGrids(mask=mask, source_plane_data_grid=grid, source_plane_mesh_grid=mg, adapt_data=ad)
    return aa.Mapper(mapper_grids=grids, over_sampler=over_sampler, regularization=None)


def split_tables(mesh):
    """split-cross tables (mappings, sizes, weights) of the repository's Delaunay mapper (concrete)"""
    key = ("split", tuple(mesh))
    if key not in _CACHE:
        with _Native():
            m = build_mapper(mesh, IMG)
            sc = m.pix_sub_weights_split_cross
            _CACHE[key] = (np.array(sc.mappings, dtype=int), np.array(sc.sizes, dtype=int), np.array(sc.weights, dtype=float))
    a, b, c = _CACHE[key]
    return a.copy(), b.copy(), c.copy()


def laplacian_ref(n, pairs, coef, diag_extra=None):
    """ridge*I + sum_pairs coef(i,j) (e_i-e_j)(e_i-e_j)^T as an object matrix"""
    H = np.zeros((n, n), dtype=object)
    for i in range(n):
        H[i, i] = RIDGE if diag_extra is None else RIDGE + diag_extra
    for i, j in pairs:
        k = coef(i, j)
        H[i, i] = H[i, i] + k
        H[j, j] = H[j, j] + k
        H[i, j] = H[i, j] - k
        H[j, i] = H[j, i] - k
    return H


def pair_form(n, pairs, coef, x):
    q = 0.0
    for i, j in pairs:
        d = x[i] - x[j]
        q = q + coef(i, j) * d * d
    for i in range(n):
        q = q + RIDGE * x[i] * x[i]
    return q


# ------------------------------------------------------------------------------------------------ obligation builders

def _gt0(v, strict=True):
    return (v > 0) if strict else (v >= 0)


def matrix_checks(A, E, tag, H, n, x=None, H_ref=None, quad_ref=None, dominance=None, pd_direct=False, pd_strict=True):
    """obligations about one regularization matrix H (proxy object array or float64 array)"""
    if isinstance(H, hx.Raised):
        A[tag + ".no_exception"] = repr(H) + " " + H.msg
        E[tag + ".no_exception"] = "ok"
        return False
    H = np.asarray(hx.unwrap(H))
    A[tag + ".shape"] = [int(s) for s in H.shape]
    E[tag + ".shape"] = [n, n]
    if tuple(H.shape) != (n, n):
        return False
    A[tag + ".symmetric"] = H - H.T
    E[tag + ".symmetric"] = np.zeros((n, n))
    if H_ref is not None:
        A[tag + ".entries"] = H
        E[tag + ".entries"] = H_ref
    if quad_ref is not None:
        A[tag + ".quadratic_form"] = x @ H @ x
        E[tag + ".quadratic_form"] = quad_ref
    if dominance is not None:
        strict = dominance == "strict"
        dom = np.zeros(n, dtype=object)
        for i in range(n):
            off = 0.0
            for j in range(n):
                if j != i:
                    off = off + abs(H[i, j])
            dom[i] = _gt0(H[i, i], strict) & _gt0(H[i, i] - off, strict)
        A[tag + (".pd" if strict else ".psd") + "_certificate_row_dominance"] = dom
        E[tag + (".pd" if strict else ".psd") + "_certificate_row_dominance"] = np.ones(n, dtype=bool)
    if pd_direct:
        # exists x != 0 with x^T H x <= 0  <=>  for some i: x_0..x_{i-1} = 0, x_i = 1 and x^T H x <= 0
        for i in range(n):
            xi = np.array(list(x), dtype=object)
            xi[i] = 1.0
            for j in range(i):
                xi[j] = 0.0
            # one obligation per case: nlsat is far quicker on them separately
            key = tag + (".pd_direct.%d" if pd_strict else ".psd_direct.%d") % i
            A[key] = _gt0(xi @ H @ xi, pd_strict)
            E[key] = True
    return True


def diagonal_checks(A, E, tag, H, n):
    """zeroth-order schemes: PSD because diagonal with non-negative entries (solver decides both facts)"""
    if isinstance(H, hx.Raised):
        A[tag + ".no_exception"] = repr(H) + " " + H.msg
        E[tag + ".no_exception"] = "ok"
        return
    H = np.asarray(hx.unwrap(H))
    A[tag + ".shape"] = [int(s) for s in H.shape]
    E[tag + ".shape"] = [n, n]
    if tuple(H.shape) != (n, n):
        return
    A[tag + ".symmetric"] = H - H.T
    E[tag + ".symmetric"] = np.zeros((n, n))
    off = H.copy()
    for i in range(n):
        off[i, i] = 0.0
    A[tag + ".psd_off_diagonal_zero"] = off
    E[tag + ".psd_off_diagonal_zero"] = np.zeros((n, n))
    A[tag + ".psd_diagonal_nonnegative"] = np.array([H[i, i] >= 0 for i in range(n)], dtype=object)
    E[tag + ".psd_diagonal_nonnegative"] = np.ones(n, dtype=bool)


_NO_VALIDATE = ("_certificate_row_dominance", ".psd_diagonal_nonnegative")


_ABS = {}


def abstract_terms(arr):
    """body -> run: obligations of this path may be decided with these (large) proxy terms replaced by fresh variables"""
    _ABS["terms"] = [e.t for e in np.asarray(arr, dtype=object).reshape(-1) if isinstance(e, V.SymReal)]


_PIN_VALUES = ["1", "1/2", "3/4", "1/4", "2/3", "1/3", "7/8", "3/8", "5/8", "1/8", "5/6", "1/6"]


def _pinned_counterexample(ctx, neg, tries=3):
    consts = []

    def walk(v):
        if isinstance(v, dict):
            for e in v.values():
                walk(e)
        elif isinstance(v, (list, tuple)):
            for e in v:
                walk(e)
        elif isinstance(v, np.ndarray):
            if v.dtype == object:
                for e in v.reshape(-1):
                    walk(e)
        elif isinstance(v, V.SymReal) and z3.is_const(v.t):
            consts.append(v.t)

    walk(ctx.inputs)
    if not consts:
        return None
    old_ms = ctx.timeout_ms
    ctx.timeout_ms = 5000
    ctx.solver.set("timeout", 5000)
    try:
        for t in range(tries):
            pins = [c == z3.RealVal(_PIN_VALUES[(i * (t + 1) + t) % len(_PIN_VALUES)]) for i, c in enumerate(consts)]
            r, m = ctx._check(neg, *pins)
            if r == "sat":
                return m
    finally:
        ctx.timeout_ms = old_ms
        ctx.solver.set("timeout", old_ms)
    return None


def check_all(ctx, A, E, known=None):
    """hx.check_all plus term abstraction: the per-pixel weights reported by a scheme are deep ite/division terms in the
    adapt data; every obligation is an algebraic fact about them, so it is first tried with each weight term replaced by a
    fresh real (a sound generalisation: unsat there implies unsat for the actual terms).  Anything not discharged that way
    is decided on the unabstracted terms (so counterexamples are always over the real inputs)."""
    terms = _ABS.pop("terms", None)
    subs = []
    if terms:
        seen = set()
        for t in terms:
            if t.get_id() not in seen and not z3.is_const(t):
                seen.add(t.get_id())
                subs.append((t, z3.Real("wabs!%d" % len(subs))))
    long_ms = ctx.timeout_ms
    for k in E:
        # identities, symmetry and dominance are decided in well under a second on an idle core; only the direct definiteness
        # queries get the long per-query timeout
        ms = long_ms if ("_direct." in k) else min(long_ms, 20000)
        ctx.timeout_ms = ms
        ctx.solver.set("timeout", ms)
        if subs and k in A and not (known and k in known):
            obs = [o for o in hx.eq_terms(A[k], E[k])]
            zs = [o.t if isinstance(o, V.SymBool) else o for o in obs]
            if all(isinstance(o, (bool, np.bool_)) or z3.is_expr(o) for o in zs):
                conj = z3.And(*[z3.BoolVal(bool(o)) if isinstance(o, (bool, np.bool_)) else o for o in zs])
                conj = z3.simplify(z3.substitute(conj, *subs))
                if z3.is_true(conj):
                    r = "unsat"
                elif z3.is_false(conj):
                    r = "sat"
                else:
                    r, _ = ctx._check_sliced(z3.Not(conj))
                if r == "unsat":
                    ctx.stats.obligations += 1
                    ctx.stats.discharged += 1
                    if len(ctx.stats.samples) < 4:
                        ctx.stats.samples.append({"obligation": k, "case": dict(ctx.case_info), "verdict": "unsat",
                                                  "smt_size": len(conj.sexpr()), "abstracted_weight_terms": len(subs)})
                    continue
                # not discharged in abstracted form: before the (expensive) general query look for a counterexample by plain
                # evaluation - every input variable pinned to a small positive rational, which turns the query into arithmetic.
                # Only ever yields a candidate (replayed on the real code), never a 'holds' verdict.
                full = z3.And(*[z3.BoolVal(bool(o)) if isinstance(o, (bool, np.bool_)) else o for o in zs])
                hit = _pinned_counterexample(ctx, z3.Not(full))
                if hit is not None:
                    from symx.explore import Candidate
                    ctx.stats.obligations += 1
                    ctx.stats.sat += 1
                    if len(ctx.stats.candidates) < ctx.max_candidates:
                        ctx.stats.candidates.append(Candidate(k, ctx.case_from_model(hit), None, None))
                    continue
        hx.check_all(ctx, A, E, known=known, only=[k])
    ctx.timeout_ms = long_ms
    ctx.solver.set("timeout", long_ms)


def run(ctx, body, inputs, kwargs, validate=True, known=None):
    ctx.set_inputs(**inputs)
    _ABS.clear()
    A, E = body(inputs, **kwargs)
    if validate:
        # (before the obligations: the model of the bare path condition is then small)
        # boolean certificates involve the absolute 1e-8 ridge and are float-fragile for large model values: they are
        # decided by the solver only; every numeric output is cross-validated against the native run
        keep = _ABS.get("terms")
        hx.validate(ctx, body, inputs, kwargs, {k: v for k, v in A.items() if not (k.endswith(_NO_VALIDATE) or ".pd_direct." in k or ".psd_direct." in k)}, every=1)
        _ABS.clear()
        if keep:
            _ABS["terms"] = keep
    else:
        ctx.twin()
    check_all(ctx, A, E, known=known)
    return A, E


def _positive(ctx, *vals):
    for v in vals:
        for e in np.asarray(v, dtype=object).reshape(-1):
            ctx.assume(e.t > 0)


def _nonneg(ctx, *vals):
    for v in vals:
        for e in np.asarray(v, dtype=object).reshape(-1):
            ctx.assume(e.t >= 0)


# ------------------------------------------------------------------------------------------------ level K: the kernels

def body_kernels(inp, mesh, pd=False):
    """regularization_util kernels on a neighbour table; coefficient / weights / x symbolic"""
    from autoarray.inversion.regularization import regularization_util as ru
    if mesh[0] == "graph":
        n = mesh[1]
        nb, sizes, pairs = graph_tables(inp["adj"], n)
    else:
        nb, sizes = repo_tables(mesh)
        n, pairs = mesh_reference(mesh)
    c, cz = inp["c"], inp["cz"]
    w = np.asarray(inp["w"]).reshape(-1)[:n]
    x = np.asarray(inp["x"]).reshape(-1)[:n]
    A, E = {}, {}
    A["table.rows"] = int(len(nb))
    E["table.rows"] = n
    if len(nb) != n:
        return A, E
    # Constant: x^T H x = c^2 sum_pairs (x_i-x_j)^2 + ridge |x|^2
    H = hx.attempt(ru.constant_regularization_matrix_from, coefficient=c, neighbors=nb, neighbors_sizes=sizes)
    matrix_checks(A, E, "constant", H, n, x, H_ref=laplacian_ref(n, pairs, lambda i, j: c * c),
                  quad_ref=pair_form(n, pairs, lambda i, j: c * c, x), dominance="strict", pd_direct=pd)
    # ConstantZeroth: symmetric PSD (certificate: row dominance)
    H = hx.attempt(ru.constant_zeroth_regularization_matrix_from, coefficient=c, coefficient_zeroth=cz, neighbors=nb, neighbors_sizes=sizes)
    matrix_checks(A, E, "constant_zeroth", H, n, x, dominance="weak", pd_direct=pd and n <= 5, pd_strict=False)
    # Zeroth / BrightnessZeroth kernels: diagonal with non-negative entries
    diagonal_checks(A, E, "zeroth", hx.attempt(ru.zeroth_regularization_matrix_from, coefficient=c, pixels=n), n)
    diagonal_checks(A, E, "brightness_zeroth", hx.attempt(ru.brightness_zeroth_regularization_matrix_from, regularization_weights=w), n)
    # weighted (adaptive): pair (i,j) weighted by w_i^2 + w_j^2
    H = hx.attempt(ru.weighted_regularization_matrix_from, regularization_weights=w, neighbors=nb, neighbors_sizes=sizes)
    cw = lambda i, j: w[i] * w[i] + w[j] * w[j]
    matrix_checks(A, E, "weighted", H, n, x, H_ref=laplacian_ref(n, pairs, cw), quad_ref=pair_form(n, pairs, cw, x), dominance="strict")
    return A, E


def case_kernels(ctx, mesh, pd=False):
    if mesh[0] == "graph":
        n = mesh[1]
        adj = ctx.concrete_bools(V.bool_array("adj", (n * (n - 1) // 2,)))
        ctx.set_case(adj=adj.tolist())
        inputs = {"adj": adj}
    else:
        n, _ = mesh_reference(mesh)
        inputs = {}
    c, cz = V.real("c"), V.real("cz")
    w = V.real_array("w", (n,))
    _positive(ctx, c, cz)
    _nonneg(ctx, w)
    inputs.update({"c": c, "cz": cz, "w": w, "x": V.real_array("x", (n,))})
    ctx.set_case(mesh=str(mesh))
    run(ctx, body_kernels, inputs, {"mesh": mesh, "pd": pd})


# ------------------------------------------------------------------------------------------------ level C: scheme classes on real mappers

def _scheme(name, inp, sscale):
    import autoarray as aa
    ss = inp["ss"] if sscale == "sym" else sscale
    if name == "Constant":
        return aa.reg.Constant(coefficient=inp["c"])
    if name == "ConstantZeroth":
        return aa.reg.ConstantZeroth(coefficient_neighbor=inp["c"], coefficient_zeroth=inp["cz"])
    if name == "Zeroth":
        return aa.reg.Zeroth(coefficient=inp["c"])
    if name == "AdaptiveBrightness":
        return aa.reg.AdaptiveBrightness(inner_coefficient=inp["ci"], outer_coefficient=inp["co"], signal_scale=ss)
    if name == "BrightnessZeroth":
        return aa.reg.BrightnessZeroth(coefficient=inp["c"], signal_scale=ss)
    if name == "ConstantSplit":
        return aa.reg.ConstantSplit(coefficient=inp["c"])
    if name == "AdaptiveBrightnessSplit":
        return aa.reg.AdaptiveBrightnessSplit(inner_coefficient=inp["ci"], outer_coefficient=inp["co"], signal_scale=ss)
    raise ValueError(name)


def gram_ref(n, rw, mappings, sizes, weights):
    """split-cross reference: ridge*I + sum_i rw_i sum_{k in cross(i)} a_k a_k^T with a_k = sum_l weights[k,l] e_{mappings[k,l]}
    (products of two table weights are formed first, as float products when the tables are concrete)"""
    H = np.zeros((n, n), dtype=object)
    for i in range(n):
        H[i, i] = RIDGE
    for k in range(len(mappings)):
        i = k // 4
        for l in range(int(sizes[k])):
            for m in range(int(sizes[k])):
                a, b = int(mappings[k][l]), int(mappings[k][m])
                H[a, b] = H[a, b] + weights[k][l] * weights[k][m] * rw[i]
    return H


def body_scheme(inp, mesh, scheme, sscale, img=IMG, pd=False):
    """observe at regularization.regularization_matrix_from / regularization_weights_from(linear_obj=mapper) on a real mapper"""
    n, pairs = mesh_reference(mesh)
    x = np.asarray(inp["x"]).reshape(-1)[:n]
    A, E = {}, {}
    mapper = hx.attempt(build_mapper, mesh, img, adapt=inp.get("adapt"))
    if isinstance(mapper, hx.Raised):
        A["mapper"] = repr(mapper) + mapper.msg
        E["mapper"] = "built"
        return A, E
    A["params"] = int(mapper.params)
    E["params"] = n
    reg = _scheme(scheme, inp, sscale)
    w = None
    if scheme in ("AdaptiveBrightness", "AdaptiveBrightnessSplit"):
        # "w are the per-pixel regularization weights the scheme itself reports".  History on the ONE mapper: weights are asked first,
        # then the matrix, then the matrix again - every matrix must match the reported weights
        w = hx.attempt(reg.regularization_weights_from, linear_obj=mapper)
    H = hx.attempt(reg.regularization_matrix_from, linear_obj=mapper)
    H_again = hx.attempt(reg.regularization_matrix_from, linear_obj=mapper) if scheme in ("AdaptiveBrightness", "BrightnessZeroth") else None
    if scheme in ("AdaptiveBrightness", "AdaptiveBrightnessSplit"):
        if isinstance(w, hx.Raised):
            A["weights.no_exception"] = repr(w) + " " + w.msg
            E["weights.no_exception"] = "ok"
            return A, E
        w = np.asarray(hx.unwrap(w))
        A["weights.shape"] = [int(s) for s in w.shape]
        E["weights.shape"] = [n]
        if tuple(w.shape) != (n,):
            return A, E
        abstract_terms(w)
    tag = scheme
    if scheme == "Constant":
        c = inp["c"]
        matrix_checks(A, E, tag, H, n, x, H_ref=laplacian_ref(n, pairs, lambda i, j: c * c),
                      quad_ref=pair_form(n, pairs, lambda i, j: c * c, x), dominance="strict", pd_direct=pd)
    elif scheme == "AdaptiveBrightness":
        cw = lambda i, j: w[i] * w[i] + w[j] * w[j]
        matrix_checks(A, E, tag, H, n, x, H_ref=laplacian_ref(n, pairs, cw), quad_ref=pair_form(n, pairs, cw, x), dominance="strict")
        matrix_checks(A, E, tag + ".second_call", H_again, n, x, H_ref=laplacian_ref(n, pairs, cw), quad_ref=pair_form(n, pairs, cw, x))
    elif scheme == "ConstantZeroth":
        matrix_checks(A, E, tag, H, n, x, dominance="weak", pd_direct=pd, pd_strict=False)
    elif scheme in ("Zeroth", "BrightnessZeroth"):
        if scheme == "BrightnessZeroth":
            # proof aid only (nothing about the weights is demanded): lets the solver see the diagonal as squares of opaque terms
            wz = hx.attempt(reg.regularization_weights_from, linear_obj=mapper)
            if not isinstance(wz, hx.Raised):
                abstract_terms(np.asarray(hx.unwrap(wz)))
        diagonal_checks(A, E, tag, H, n)
        if H_again is not None:
            diagonal_checks(A, E, tag + ".second_call", H_again, n)
    elif scheme in ("ConstantSplit", "AdaptiveBrightnessSplit"):
        # PD certificate: H is ridge*I + the rw-weighted Gram matrix of the cross rows
        mp, sz, wt = split_tables(mesh)
        rows = cross_rows(mp, sz, wt)
        if isinstance(rows, hx.Raised):
            A["cross_rows"] = repr(rows) + rows.msg
            E["cross_rows"] = "ok"
            return A, E
        if scheme == "ConstantSplit":
            rw = np.array([inp["c"] * inp["c"]] * n, dtype=object)
        else:
            rw = w * w
        matrix_checks(A, E, tag, H, n, x, H_ref=gram_ref(n, rw, *rows))
    return A, E


def cross_rows(mappings, sizes, weights):
    """the rows a_k the split kernel is handed: the repository's own reg_split_from applied to fresh copies of the tables.
    (The property fixes no particular cross geometry; the certificate below only needs H to be the Gram matrix of whatever
    rows the kernel receives, so reg_split_from is executed, not specified.)"""
    from autoarray.inversion.regularization import regularization_util as ru
    return hx.attempt(ru.reg_split_from, splitted_mappings=np.array(mappings, dtype=int), splitted_sizes=np.array(sizes, dtype=int),
                      splitted_weights=np.array(weights, dtype=np.asarray(weights).dtype))


def case_scheme(ctx, mesh, scheme, sscale, img=IMG, pd=False):
    n, _ = mesh_reference(mesh)
    inputs = {"x": V.real_array("x", (n,))}
    if scheme in ("Constant", "ConstantZeroth", "Zeroth", "BrightnessZeroth", "ConstantSplit"):
        inputs["c"] = V.real("c")
        _positive(ctx, inputs["c"])
    if scheme == "ConstantZeroth":
        inputs["cz"] = V.real("cz")
        _positive(ctx, inputs["cz"])
    if scheme in ("AdaptiveBrightness", "AdaptiveBrightnessSplit"):
        inputs["ci"], inputs["co"] = V.real("ci"), V.real("co")
        _positive(ctx, inputs["ci"], inputs["co"])
    if scheme in ("AdaptiveBrightness", "AdaptiveBrightnessSplit", "BrightnessZeroth"):
        inputs["adapt"] = V.real_array("a", (img, img))
        _positive(ctx, inputs["adapt"])
        if sscale == "sym":
            inputs["ss"] = V.real("ss")
            _positive(ctx, inputs["ss"])
    ctx.set_case(mesh=str(mesh), scheme=scheme, signal_scale=str(sscale))
    # an uninterpreted pow cannot be compared with the native run under a model: those cases are not cross-validated
    run(ctx, body_scheme, inputs, {"mesh": mesh, "scheme": scheme, "sscale": sscale, "img": img, "pd": pd}, validate=(sscale != "sym"))


# ------------------------------------------------------------------------------------------------ level S: split-cross schemes, symbolic tables

def _dyadic(weights):
    """stand-in weights on a 1/16 grid (float products of two of them are exact)"""
    return np.round(np.asarray(weights, dtype=float) * 16.0) / 16.0


def body_split(inp, mesh, scheme, weights_mode, pd=False):
    """ConstantSplit / AdaptiveBrightnessSplit on a MockMapper carrying the real mapper's split-cross mappings and sizes with
    symbolic (or dyadic stand-in) interpolation weights and symbolic pixel signals"""
    import autoarray as aa
    from autoarray.inversion.pixelization.mappers.abstract import PixSubWeights
    n, _ = mesh_reference(mesh)
    x = np.asarray(inp["x"]).reshape(-1)[:n]
    mp, sz, wt = split_tables(mesh)
    if weights_mode == "sym":
        wt_in = np.array(np.asarray(inp["sw"]).reshape(wt.shape), dtype=object)
        for k in range(len(mp)):             # entries beyond the row size are padding (zero in the repository's tables)
            for l in range(int(sz[k]), wt.shape[1]):
                wt_in[k, l] = 0.0
    else:
        wt_in = _dyadic(wt)
    A, E = {}, {}

    def tables():
        return PixSubWeights(mappings=mp.copy(), sizes=sz.copy(), weights=wt_in.copy())

    sig = np.asarray(inp["sig"]).reshape(-1)[:n] if "sig" in inp else None
    reg = _scheme(scheme, inp, 1)
    # reg_split_from updates the tables in place: every call gets a fresh carrier
    H = hx.attempt(lambda: reg.regularization_matrix_from(linear_obj=aa.m.MockMapper(
        pix_sub_weights_split_cross=tables(), pixel_signals=sig, parameters=n)))
    if scheme == "ConstantSplit":
        rw = np.array([inp["c"] * inp["c"]] * n, dtype=object)
    else:
        w = hx.attempt(lambda: reg.regularization_weights_from(linear_obj=aa.m.MockMapper(pixel_signals=sig, parameters=n)))
        if isinstance(w, hx.Raised):
            A["weights.no_exception"] = repr(w) + " " + w.msg
            E["weights.no_exception"] = "ok"
            return A, E
        w = np.asarray(hx.unwrap(w))
        A["weights.shape"] = [int(s) for s in w.shape]
        E["weights.shape"] = [n]
        if tuple(w.shape) != (n,):
            return A, E
        rw = w * w
        abstract_terms(w)
    rows = cross_rows(mp, sz, wt_in)
    if isinstance(rows, hx.Raised):
        A["cross_rows"] = repr(rows) + rows.msg
        E["cross_rows"] = "ok"
        return A, E
    # entrywise equality with the Gram matrix ridge*I + sum_i rw_i sum_k a_k a_k^T is the PD certificate (x^T H x is then
    # sum_i rw_i sum_k (a_k.x)^2 + ridge |x|^2 by construction; z3 does not normalise that degree-6 identity, it is not posed)
    matrix_checks(A, E, scheme, H, n, x, H_ref=gram_ref(n, rw, *rows), pd_direct=pd)
    return A, E


def case_split(ctx, mesh, scheme, weights_mode, pd=False):
    n, _ = mesh_reference(mesh)
    inputs = {"x": V.real_array("x", (n,))}
    if scheme == "ConstantSplit":
        inputs["c"] = V.real("c")
        _positive(ctx, inputs["c"])
    else:
        inputs["ci"], inputs["co"] = V.real("ci"), V.real("co")
        inputs["sig"] = V.real_array("s", (n,))
        _positive(ctx, inputs["ci"], inputs["co"])
        for e in inputs["sig"]:
            ctx.assume(z3.And(e.t >= 0, e.t <= 1))
    if weights_mode == "sym":
        inputs["sw"] = V.real_array("sw", split_tables(mesh)[2].shape)
    run(ctx, body_split, inputs, {"mesh": mesh, "scheme": scheme, "weights_mode": weights_mode, "pd": pd})


# ------------------------------------------------------------------------------------------------ level I: block placement in the inversion

BLOCK_SIZE = {"S2": 2, "S3": 3, "N1": 1, "N2": 2, "C": 9, "F3": 3, "G2": 2}


def _make_inversion(objs, variant):
    """the inversion object the user observes: plain AbstractInversion (mock carrier); the same given Preloads filled by the public
    Preloads.set_regularization_matrix_and_term from two identical inversions; or built by the aa.Inversion factory for an imaging /
    an interferometer (visibilities) dataset with use_w_tilde=False, use_linear_operators=False"""
    import autoarray as aa
    from types import SimpleNamespace
    if variant == "plain":
        return aa.m.MockInversion(linear_obj_list=objs)
    if variant == "preloads":
        # the log-det term the setter compares is supplied concretely (it needs LAPACK on a concrete matrix); what is preloaded is
        # whatever the setter takes from the first inversion
        inv_0 = aa.m.MockInversion(linear_obj_list=objs, log_det_regularization_matrix_term=1.0)
        inv_1 = aa.m.MockInversion(linear_obj_list=objs, log_det_regularization_matrix_term=1.0)
        preloads = aa.Preloads()
        preloads.set_regularization_matrix_and_term(fit_0=SimpleNamespace(inversion=inv_0), fit_1=SimpleNamespace(inversion=inv_1))
        return aa.m.MockInversion(linear_obj_list=objs, preloads=preloads)
    settings = aa.SettingsInversion(use_w_tilde=False, use_linear_operators=False)
    if variant == "imaging":
        mask = aa.Mask2D.all_false(shape_native=(IMG, IMG), pixel_scales=1.0)
        dataset = aa.DatasetInterface(data=aa.Array2D(values=np.ones((IMG, IMG)), mask=mask),
                                      noise_map=aa.Array2D(values=np.ones((IMG, IMG)), mask=mask), convolver=None)
    else:
        dataset = aa.DatasetInterface(data=aa.Visibilities(visibilities=[1 + 1j, 2 - 1j, 0.5 + 0j, 1 + 2j]),
                                      noise_map=aa.VisibilitiesNoiseMap(visibilities=[1 + 1j] * 4), transformer=None)
    return aa.Inversion(dataset=dataset, linear_obj_list=objs, settings=settings)


def body_blocks(inp, seq, variant="plain"):
    """inversion.regularization_matrix / regularization_matrix_reduced for a sequence of linear objects:
    S<k>: regularized, arbitrary symbolic k x k matrix;  N<k>: k parameters, no regularization;  C: real rectangular 3x3 mapper + Constant;
    F3: linear function list with 3 parameters + Constant"""
    import autoarray as aa
    A, E = {}, {}
    objs, blocks = [], []
    for pos, kind in enumerate(seq):
        k = BLOCK_SIZE[kind]
        if kind[0] == "S":
            B = np.asarray(inp["B%d" % pos]).reshape(k, k)
            objs.append(aa.m.MockLinearObj(parameters=k, regularization=aa.m.MockRegularization(regularization_matrix=B)))
            blocks.append((True, B))
        elif kind[0] == "N":
            objs.append(aa.m.MockLinearObj(parameters=k, regularization=None))
            blocks.append((False, np.zeros((k, k))))
        elif kind == "G2":
            objs.append(aa.m.MockLinearObjFuncList(parameters=k, regularization=None))
            blocks.append((False, np.zeros((k, k))))
        else:
            c = inp["c%d" % pos]
            mesh = ["rect", 3, 3] if kind == "C" else ["chain", 3]
            mapper = build_mapper(mesh, IMG)
            mapper.regularization = aa.reg.Constant(coefficient=c)
            objs.append(mapper)
            n, pairs = mesh_reference(mesh)
            blocks.append((True, laplacian_ref(n, pairs, lambda i, j: c * c)))
    total = sum(b.shape[0] for _, b in blocks)
    full = np.zeros((total, total), dtype=object)
    o = 0
    for _, b in blocks:
        k = b.shape[0]
        full[o:o + k, o:o + k] = b
        o += k
    regd = [b for r, b in blocks if r]
    tr = sum(b.shape[0] for b in regd)
    red = np.zeros((tr, tr), dtype=object)
    o = 0
    for b in regd:
        k = b.shape[0]
        red[o:o + k, o:o + k] = b
        o += k
    inv = hx.attempt(_make_inversion, objs, variant)
    if isinstance(inv, hx.Raised):
        A["inversion.built"] = repr(inv) + " " + inv.msg
        E["inversion.built"] = "ok"
        return A, E
    for pos, obj in enumerate(objs):
        if not blocks[pos][0]:
            A["obj%d.zero_block" % pos] = hx.attempt(lambda: np.asarray(obj.regularization_matrix))
            E["obj%d.zero_block" % pos] = blocks[pos][1]
    Hf = hx.attempt(lambda: np.asarray(inv.regularization_matrix))
    A["full.shape"] = list(Hf.shape) if not isinstance(Hf, hx.Raised) else repr(Hf)
    E["full.shape"] = [total, total]
    A["full.entries"] = Hf
    E["full.entries"] = full
    inv2 = hx.attempt(_make_inversion, objs, variant)
    Hr = hx.attempt(lambda: np.asarray(inv2.regularization_matrix_reduced))
    A["reduced.shape"] = list(Hr.shape) if not isinstance(Hr, hx.Raised) else repr(Hr)
    E["reduced.shape"] = [tr, tr]
    if tr > 0:
        A["reduced.entries"] = Hr
        E["reduced.entries"] = red
    return A, E


def case_blocks(ctx, seq, variant="plain"):
    inputs = {}
    for pos, kind in enumerate(seq):
        k = BLOCK_SIZE[kind]
        if kind[0] == "S":
            inputs["B%d" % pos] = V.real_array("B%d" % pos, (k, k))
        elif kind in ("C", "F3"):
            inputs["c%d" % pos] = V.real("c%d" % pos)
            _positive(ctx, inputs["c%d" % pos])
    if not inputs:
        # nothing symbolic in an all-unregularized sequence: give the solver the (trivial) placement question anyway
        inputs["unused"] = V.real("unused")
    ctx.set_case(seq=str(seq), variant=variant)
    run(ctx, body_blocks, inputs, {"seq": seq, "variant": variant})


# ------------------------------------------------------------------------------------------------ level H: histories on one linear object

def body_history(inp, mesh, change):
    """two-step history on the SAME linear object: observe its block (directly and through a new inversion), change its
    regularization, observe again.  The state the user observes after the change must satisfy the property:
    none: Constant(c1) -> None;  add: None -> Constant(c2);  replace: Constant(c1) -> Constant(c2);  coefficient: reg.coefficient = c2"""
    import autoarray as aa
    n, pairs = mesh_reference(mesh)
    x = np.asarray(inp["x"]).reshape(-1)[:n]
    c1, c2 = inp["c1"], inp["c2"]
    A, E = {}, {}
    obj = build_mapper(mesh, IMG)

    def observe(tag, coef):
        if coef is None:
            ref, qref = np.zeros((n, n)), 0.0
        else:
            ref = laplacian_ref(n, pairs, lambda i, j: coef * coef)
            qref = pair_form(n, pairs, lambda i, j: coef * coef, x)
        H = hx.attempt(lambda: np.asarray(obj.regularization_matrix))
        A[tag + ".linear_obj.entries"] = H
        E[tag + ".linear_obj.entries"] = ref
        if not isinstance(H, hx.Raised) and tuple(H.shape) == (n, n):
            A[tag + ".linear_obj.quadratic_form"] = x @ H @ x
            E[tag + ".linear_obj.quadratic_form"] = qref
        # a NEW inversion built from [unregularized 1-parameter object, this object]
        inv = aa.m.MockInversion(linear_obj_list=[aa.m.MockLinearObj(parameters=1, regularization=None), obj])
        full = np.zeros((n + 1, n + 1), dtype=object)
        full[1:, 1:] = ref
        A[tag + ".inversion.full"] = hx.attempt(lambda: np.asarray(inv.regularization_matrix))
        E[tag + ".inversion.full"] = full
        inv2 = aa.m.MockInversion(linear_obj_list=[aa.m.MockLinearObj(parameters=1, regularization=None), obj])
        red = hx.attempt(lambda: np.asarray(inv2.regularization_matrix_reduced))
        A[tag + ".inversion.reduced.shape"] = list(red.shape) if not isinstance(red, hx.Raised) else repr(red)
        E[tag + ".inversion.reduced.shape"] = [0, 0] if coef is None else [n, n]
        if coef is not None:
            A[tag + ".inversion.reduced"] = red
            E[tag + ".inversion.reduced"] = ref

    first = None if change == "add" else c1
    obj.regularization = None if first is None else aa.reg.Constant(coefficient=c1)
    observe("first", first)
    if change == "none":
        obj.regularization = None
        second = None
    elif change in ("add", "replace"):
        obj.regularization = aa.reg.Constant(coefficient=c2)
        second = c2
    else:
        obj.regularization.coefficient = c2
        second = c2
    observe("second", second)
    return A, E


def case_history(ctx, mesh, change):
    n, _ = mesh_reference(mesh)
    inputs = {"c1": V.real("c1"), "c2": V.real("c2"), "x": V.real_array("x", (n,))}
    _positive(ctx, inputs["c1"], inputs["c2"])
    ctx.set_case(mesh=str(mesh), change=change)
    run(ctx, body_history, inputs, {"mesh": mesh, "change": change})


# ------------------------------------------------------------------------------------------------ level G: kernel schemes - ASSEMBLY only

POINTS3 = "sym3"          # three mesh points with symbolic coordinates


def _is_symv(v):
    return isinstance(v, (V.SymReal, V.SymInt))


def _exp(v):
    return V.sym_float(v).exp() if _is_symv(v) else np.exp(v)


def _sqrt(v):
    return V.sym_float(v).sqrt() if _is_symv(v) else np.sqrt(v)


def mesh_points(mesh, inp):
    if mesh[0] == "sympts":
        return np.asarray(inp["pts"]).reshape(-1, 2)
    key = ("points", tuple(mesh))
    if key not in _CACHE:
        with _Native():
            _, _, grid = image_parts(IMG)
            _CACHE[key] = np.array(mesh_grid_from(mesh, grid), dtype=float).reshape(-1, 2)
    return _CACHE[key]


def cov_ref(kind, pts, s, symbolic):
    """covariance of the property's kernel for EVERY pair: gauss exp(-d^2/(2 s^2)), exp exp(-d/s); diagonal exp(0) + ridge.
    For concrete points the float distance is formed exactly as numpy does (sqrt, then square) so that the arguments of the
    uninterpreted exp agree as rationals; for symbolic points the squared distance is used directly (gauss)."""
    n = len(pts)
    C = np.zeros((n, n), dtype=object)
    one = 1.0     # exp(-0/(2 s^2)): the proxy layer folds 0/x to 0.0, numpy gives exp(0.0) = 1.0, so the diagonal is the float 1e-8 + 1.0
    for i in range(n):
        for j in range(n):
            if i == j:
                C[i, j] = RIDGE + one
                continue
            d2 = (pts[i][1] - pts[j][1]) ** 2 + (pts[i][0] - pts[j][0]) ** 2
            if kind == "gauss":
                if _is_symv(d2):
                    C[i, j] = _exp(-1.0 * d2 / (2 * s ** 2))
                else:
                    C[i, j] = _exp(-1.0 * np.sqrt(d2) ** 2 / (2 * s ** 2))
            else:
                C[i, j] = _exp(-1.0 * _sqrt(d2) / s)
    return C


def _cov_fn(kind):
    from autoarray.inversion.regularization import gaussian_kernel, exponential_kernel
    return gaussian_kernel.gauss_cov_matrix_from if kind == "gauss" else exponential_kernel.exp_cov_matrix_from


class _NPInv:
    """stands in for the `np` global of a kernel-scheme module during one call: records the argument of np.linalg.inv; for a
    proxy matrix it returns a matrix of fresh reals - "inv(argument)", opaque: the obligations only say WHICH matrix is inverted and
    that the scheme returns coefficient * inv(that matrix); no property of the inverse itself (definiteness) is derived"""

    def __init__(self, orig, log):
        self._orig, self._log = orig, log
        self.linalg = self

    def __getattr__(self, name):
        return getattr(self._orig, name)

    def inv(self, a):
        from symx import shim
        a = np.asarray(hx.unwrap(a))
        if not shim.has_sym(a):
            r = np.linalg.inv(shim.normalise(a))
            self._log.append((a, r))
            return r
        ctx = V.ctx()
        n = a.shape[0]
        M = np.empty((n, n), dtype=object)
        for i in range(n):
            for j in range(n):
                M[i, j] = V.SymReal(ctx.fresh_real("inv"))
        self._log.append((a, M))
        return M


def body_cov(inp, mesh, kind, cls=False, window=False):
    """kernel schemes, assembly only: (K) gauss_cov_matrix_from / exp_cov_matrix_from entrywise against the kernel for every pair;
    (class) the matrix handed to np.linalg.inv is that covariance and the result is coefficient * inverse(covariance)"""
    import autoarray as aa
    from autoarray.inversion.regularization import gaussian_kernel, exponential_kernel
    s = inp["scale"]
    symbolic = _is_symv(s)
    A, E = {}, {}
    if not cls:
        pts = mesh_points(mesh, inp)
        n = len(pts)
        C = hx.attempt(_cov_fn(kind), scale=s, pixel_points=pts)
        if isinstance(C, hx.Raised):
            A["cov.no_exception"] = repr(C) + C.msg
            E["cov.no_exception"] = "ok"
            return A, E
        C = np.asarray(hx.unwrap(C))
        A["cov.shape"] = [int(v) for v in C.shape]
        E["cov.shape"] = [n, n]
        A["cov.entries"] = C
        E["cov.entries"] = cov_ref(kind, pts, s, symbolic)
        A["cov.symmetric"] = C - C.T
        E["cov.symmetric"] = np.zeros((n, n))
        return A, E
    n, _ = mesh_reference(mesh)
    mapper = build_mapper(mesh, IMG)
    pts = mesh_points(mesh, inp)
    c = inp["c"]
    mod = gaussian_kernel if kind == "gauss" else exponential_kernel
    reg = (aa.reg.GaussianKernel if kind == "gauss" else aa.reg.ExponentialKernel)(coefficient=c, scale=s)
    log = []
    orig = mod.np
    mod.np = _NPInv(orig, log)
    try:
        H = hx.attempt(reg.regularization_matrix_from, linear_obj=mapper)
    finally:
        mod.np = orig
    if isinstance(H, hx.Raised) or len(log) != 1:
        A["kernel.no_exception_one_inverse"] = repr(H) + " inv calls: %d" % len(log)
        E["kernel.no_exception_one_inverse"] = "ok"
        return A, E
    H = np.asarray(hx.unwrap(H))
    A["kernel.shape"] = [int(v) for v in H.shape]
    E["kernel.shape"] = [n, n]
    A["kernel.inverted_matrix"] = log[0][0]
    E["kernel.inverted_matrix"] = cov_ref(kind, pts, s, symbolic)
    A["kernel.coefficient_times_inverse"] = H
    E["kernel.coefficient_times_inverse"] = c * log[0][1]
    return A, E


def case_cov(ctx, mesh, kind, cls=False, window=False):
    s = V.real("scale")
    _positive(ctx, s)
    inputs = {"scale": s}
    if cls:
        inputs["c"] = V.real("c")
        _positive(ctx, inputs["c"])
    if mesh[0] == "sympts":
        inputs["pts"] = V.real_array("p", (mesh[1], 2))
    pts = mesh_points(mesh, inputs)
    if window:
        # sub-case in which a dropped pair is visible in float64: every distance is at most 6.5 scales (exp(-6.5^2/2) = 7e-10);
        # the unrestricted case carries the claim, this one makes counterexamples replayable
        if mesh[0] == "sympts":
            for i in range(len(pts)):
                for j in range(i):
                    d2 = (pts[i][1] - pts[j][1]) ** 2 + (pts[i][0] - pts[j][0]) ** 2
                    ctx.assume(d2.t <= V.rval(6.5 * 6.5) * s.t * s.t)
        else:
            dmax = max(float(np.sqrt(((p - q) ** 2).sum())) for p in pts for q in pts)
            ctx.assume(s.t * V.rval(6.5) >= V.rval(dmax))
    ctx.set_case(mesh=str(mesh), kind=kind, cls=cls, window=window)
    # an uninterpreted exp cannot be compared with the native run under a model: not cross-validated (replay still runs natively)
    run(ctx, body_cov, inputs, {"mesh": mesh, "kind": kind, "cls": cls}, validate=False)


# ------------------------------------------------------------------------------------------------ cases / replay

BODIES = {"case_kernels": body_kernels, "case_scheme": body_scheme, "case_split": body_split, "case_blocks": body_blocks,
          "case_history": body_history, "case_cov": body_cov}


def cases(tier):
    q = tier == "quick"
    out = []
    rects = [(3, 3), (3, 4), (4, 3), (4, 4), (3, 5), (5, 5)] + ([] if q else [(4, 5), (5, 3), (6, 6), (5, 7), (7, 7), (8, 8)])
    dels = ["D5", "D6", "D7", "D9"] + ([] if q else ["D12"])
    pd_cap = 9 if q else 12
    meshes = [["rect", h, w] for h, w in rects] + [["del", d] for d in dels + ["H10", "L9"]]
    slow = {"timeout_ms": 900000}       # the 12-unknown definiteness queries need ~5 s each on an idle core; the machine is shared

    def pd_ok(m):
        n = mesh_reference(m)[0]
        return n <= (pd_cap if m[0] == "rect" else 9)

    for m in meshes:
        out.append(("case_kernels", {"mesh": m, "pd": pd_ok(m)}, slow if pd_ok(m) and not q else {}))
    for n in ([2, 3, 4] if q else [2, 3, 4, 5]):
        out.append(("case_kernels", {"mesh": ["graph", n], "pd": True}, {"split": {2: 0, 3: 0, 4: 3, 5: 5}[n]}))
    # scheme classes on real mappers
    cmeshes = [["rect", 3, 3], ["rect", 3, 4], ["del", "D5"], ["del", "D7"], ["del", "H10"], ["del", "L9"]] + ([] if q else [["rect", 4, 4], ["rect", 4, 3], ["rect", 5, 5],
                                                                                            ["del", "D6"], ["del", "D9"], ["del", "D12"]])
    for m in cmeshes:
        n = mesh_reference(m)[0]
        for scheme in ("Constant", "ConstantZeroth", "Zeroth"):
            # ConstantZeroth has two coefficients: the direct query terminates only on the smallest meshes
            pd = (n <= 5 if scheme == "ConstantZeroth" else pd_ok(m)) and scheme != "Zeroth"
            out.append(("case_scheme", {"mesh": m, "scheme": scheme, "sscale": 1, "pd": pd}, slow if pd and not q else {}))
        for scheme in ("AdaptiveBrightness", "BrightnessZeroth"):
            for ss in (1, 2, "sym"):
                for img in ([3] if q else [3, 4]):
                    out.append(("case_scheme", {"mesh": m, "scheme": scheme, "sscale": ss, "img": img}))
        if m[0] == "del" and m[1] not in ("H10", "L9"):
            out.append(("case_scheme", {"mesh": m, "scheme": "ConstantSplit", "sscale": 1}))
            for ss in (1, "sym"):
                out.append(("case_scheme", {"mesh": m, "scheme": "AdaptiveBrightnessSplit", "sscale": ss}))
    # linear function lists (1D chain of neighbours, LinearObjFuncList.neighbors)
    for n in ([1, 2, 3, 5] if q else [1, 2, 3, 4, 5, 6, 8]):
        for scheme in ("Constant", "ConstantZeroth", "Zeroth"):
            out.append(("case_scheme", {"mesh": ["chain", n], "scheme": scheme, "sscale": 1, "pd": scheme == "Constant" or (scheme == "ConstantZeroth" and n <= 5)}))
    # split-cross schemes with symbolic tables
    for d in (["D5", "D6"] if q else dels):
        m = ["del", d]
        n = mesh_reference(m)[0]
        out.append(("case_split", {"mesh": m, "scheme": "ConstantSplit", "weights_mode": "sym"}))
        out.append(("case_split", {"mesh": m, "scheme": "AdaptiveBrightnessSplit", "weights_mode": "sym"}))
        out.append(("case_split", {"mesh": m, "scheme": "ConstantSplit", "weights_mode": "dyadic", "pd": n <= (6 if q else 9)}))
    # block placement
    alphabet = ["S2", "N1", "N2"]
    seqs = []
    for L in range(1, 4 if q else 5):
        seqs += [list(s) for s in itertools.product(alphabet if q or L < 4 else ["S2", "S3", "N1"], repeat=L)]
    seqs += [["C"], ["C", "N1"], ["N2", "C"], ["N1", "C", "N2"], ["C", "N1", "S2"], ["S2", "C"], ["F3"], ["F3", "N1", "C"], ["N2", "F3"]]
    if not q:
        seqs += [["C", "C"], ["C", "N2", "C"], ["N1", "C", "S3", "N2"], ["F3", "C", "N1", "F3"]]
    for s in seqs:
        out.append(("case_blocks", {"seq": s}))
    # public variants of how the inversion comes into being: preloads filled by the public setter, aa.Inversion factory for imaging and
    # interferometer datasets; sequences mix a real mapper with regularized / unregularized function lists in every order
    vseqs = [["C"], ["C", "G2"], ["G2", "C"], ["F3", "C", "G2"], ["G2", "C", "F3"], ["C", "G2", "C"]] + ([] if q else [["C", "F3"], ["G2", "F3", "C", "G2"]])
    for variant in ("preloads", "imaging", "interferometer"):
        for s in vseqs:
            out.append(("case_blocks", {"seq": s, "variant": variant}))
    # histories on one linear object
    for m in [["rect", 3, 3], ["chain", 3]] + ([] if q else [["del", "D6"], ["rect", 3, 4]]):
        for change in ("none", "add", "replace", "coefficient"):
            out.append(("case_history", {"mesh": m, "change": change}))
    # kernel schemes: covariance assembly for every pair / coefficient * inverse of it
    for kind in ("gauss", "exp"):
        kmeshes = [["rect", 3, 3], ["del", "D5"]] + ([] if q else [["rect", 4, 4], ["rect", 3, 5], ["del", "D9"]])
        if kind == "gauss":
            # symbolic point coordinates: only for the Gaussian kernel (its argument is polynomial in the coordinates; the exponential
            # kernel needs sqrt(d2_ij) == sqrt(d2_ji) for two different square-root witnesses: 13 s for 3 points, no answer for 4).
            # Short solver timeout: on a repository that branches on the distance every decision is a non-linear feasibility query.
            kmeshes += [["sympts", 3]] + ([] if q else [["sympts", 4]])
        for m in kmeshes:
            for window in (False, True):
                out.append(("case_cov", {"mesh": m, "kind": kind, "window": window}, {"timeout_ms": 8000} if m[0] == "sympts" else {}))
        for m in [["rect", 3, 3], ["del", "D5"]] + ([] if q else [["rect", 3, 4], ["del", "D7"]]):
            for window in (False, True):
                out.append(("case_cov", {"mesh": m, "kind": kind, "cls": True, "window": window}))
    return out


def replay(cand):
    cand = dict(cand)
    # tight tolerance: the 1e-8 ridge must be visible in the float replay (hx default 1e-7 would hide it)
    return hx.replay_body(BODIES[cand["case_fn"]], cand, tol=1e-11, key=cand["obligation"])
